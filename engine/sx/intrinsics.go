package sx

import (
	"fmt"
	"sort"
	"go/types"
	"hash/crc32"
	"html"
	"math"
	"reflect"
	"regexp"
	"strings"
	"sync"
	"unicode"

	"golang.org/x/tools/go/ssa"
)

type intrinsicFn func(m *Machine, caller *frame, fn *ssa.Function, args []value) (value, bool)

var intrinsics = map[string]intrinsicFn{}

// hostFunc is an engine-implemented function value callable from the program.
type hostFunc struct {
	name string
	fn   func(m *Machine, args []value) value
}

func (m *Machine) wantInit(p *ssa.Package) bool {
	path := p.Pkg.Path()
	if m.InitPkgs[path] {
		return true
	}
	for _, pre := range m.InitPrefixes {
		if strings.HasPrefix(path, pre) {
			return true
		}
	}
	return false
}

var defaultInitPkgs = []string{
	"unicode", "unicode/utf8", "strings", "bytes", "io", "sort", "slices", "cmp", "math", "math/bits",
	"strconv", "html", "hash/crc32", "container/heap", "path/filepath", "path", "internal/oserror", "io/fs",
	"unicode/utf16", "internal/bytealg", "internal/stringslite", "internal/itoa", "io/ioutil", "maps",
	"github.com/sergi/go-diff/diffmatchpatch",
}

func termU(v value) uint64 { return v.(*Term).C }

func init() {
	// ---- no-ops: formatting / logging ----
	nop := func(m *Machine, caller *frame, fn *ssa.Function, args []value) (value, bool) {
		res := fn.Signature.Results()
		switch res.Len() {
		case 0:
			return nil, true
		default:
			return m.zero(res), true
		}
	}
	fprint := func(mode int) intrinsicFn {
		return func(m *Machine, caller *frame, fn *ssa.Function, args []value) (value, bool) {
			w := args[0].(iface)
			var s value
			switch mode {
			case 0:
				s = m.sprintf(args[1], args[2].([]value))
			default:
				s = m.sprint(args[1].([]value), mode == 2)
			}
			if w.t == nil || w.t.String() == "*os.File" {
				return tuple{m.st.BV(64, uint64(strLen(s))), iface{}}, true
			}
			var meth *types.Func
			ms := m.prog.MethodSets.MethodSet(w.t)
			if sel := ms.Lookup(nil, "Write"); sel != nil {
				meth = sel.Obj().(*types.Func)
			}
			if meth == nil {
				m.unsupported("Fprintf to a writer without Write: " + w.t.String())
			}
			f := m.lookupMethod(w.t, meth)
			bs := m.strBytes(s)
			buf := make([]value, len(bs))
			for i, b := range bs {
				buf[i] = b
			}
			return m.callFrom(caller, f, []value{w.v, buf}), true
		}
	}
	intrinsics["fmt.Fprintf"] = fprint(0)
	intrinsics["fmt.Fprint"] = fprint(1)
	intrinsics["fmt.Fprintln"] = fprint(2)
	for _, n := range []string{"fmt.Printf", "fmt.Println", "fmt.Print",
		"log.Printf", "log.Println", "log.Print", "(*log.Logger).Printf", "(*log.Logger).Println",
		"github.com/davecgh/go-spew/spew.Dump", "github.com/davecgh/go-spew/spew.Printf"} {
		intrinsics[n] = nop
	}
	intrinsics["github.com/davecgh/go-spew/spew.Sdump"] = func(m *Machine, caller *frame, fn *ssa.Function, args []value) (value, bool) {
		return "", true
	}
	intrinsics["log.Fatalf"] = func(m *Machine, caller *frame, fn *ssa.Function, args []value) (value, bool) {
		m.goPanic("log.Fatalf called")
		return nil, true
	}
	intrinsics["log.Fatal"] = intrinsics["log.Fatalf"]

	intrinsics["fmt.Sprintf"] = func(m *Machine, caller *frame, fn *ssa.Function, args []value) (value, bool) {
		return m.sprintf(args[0], args[1].([]value)), true
	}
	intrinsics["fmt.Sprint"] = func(m *Machine, caller *frame, fn *ssa.Function, args []value) (value, bool) {
		return m.sprint(args[0].([]value), false), true
	}
	intrinsics["fmt.Errorf"] = func(m *Machine, caller *frame, fn *ssa.Function, args []value) (value, bool) {
		msg := m.sprintf(args[0], args[1].([]value))
		return m.call(m.stdFunc("errors", "New"), []value{msg}), true
	}

	// ---- strings.Builder (the real one uses unsafe) ----
	sbBuf := func(m *Machine, b value) *value {
		p := b.(*value)
		if p == nil {
			m.goPanic("runtime error: invalid memory address or nil pointer dereference")
		}
		return &(*p).(structure)[1]
	}
	byteT := types.Typ[types.Uint8]
	sbAppend := func(m *Machine, b value, add []value) {
		cell := sbBuf(m, b)
		cur, _ := (*cell).([]value)
		m.setCell(cell, m.appendSlice(cur, add, byteT))
	}
	intrinsics["(*strings.Builder).WriteString"] = func(m *Machine, caller *frame, fn *ssa.Function, args []value) (value, bool) {
		var add []value
		for _, t := range m.strBytes(args[1]) {
			add = append(add, t)
		}
		if len(add) > 0 {
			sbAppend(m, args[0], add)
		}
		return tuple{m.st.BV(64, uint64(len(add))), iface{}}, true
	}
	intrinsics["(*strings.Builder).Write"] = func(m *Machine, caller *frame, fn *ssa.Function, args []value) (value, bool) {
		add := args[1].([]value)
		if len(add) > 0 {
			sbAppend(m, args[0], add)
		}
		return tuple{m.st.BV(64, uint64(len(add))), iface{}}, true
	}
	intrinsics["(*strings.Builder).WriteByte"] = func(m *Machine, caller *frame, fn *ssa.Function, args []value) (value, bool) {
		sbAppend(m, args[0], []value{args[1]})
		return iface{}, true
	}
	intrinsics["(*strings.Builder).WriteRune"] = func(m *Machine, caller *frame, fn *ssa.Function, args []value) (value, bool) {
		bs := m.encodeRune(args[1].(*Term))
		var add []value
		for _, t := range bs {
			add = append(add, t)
		}
		sbAppend(m, args[0], add)
		return tuple{m.st.BV(64, uint64(len(add))), iface{}}, true
	}
	intrinsics["(*strings.Builder).String"] = func(m *Machine, caller *frame, fn *ssa.Function, args []value) (value, bool) {
		cur, _ := (*sbBuf(m, args[0])).([]value)
		bs := make([]*Term, len(cur))
		for i, e := range cur {
			bs[i] = e.(*Term)
		}
		return mkStr(bs), true
	}
	intrinsics["(*strings.Builder).Len"] = func(m *Machine, caller *frame, fn *ssa.Function, args []value) (value, bool) {
		cur, _ := (*sbBuf(m, args[0])).([]value)
		return m.st.BV(64, uint64(len(cur))), true
	}
	intrinsics["(*strings.Builder).Cap"] = func(m *Machine, caller *frame, fn *ssa.Function, args []value) (value, bool) {
		cur, _ := (*sbBuf(m, args[0])).([]value)
		return m.st.BV(64, uint64(cap(cur))), true
	}
	intrinsics["(*strings.Builder).Reset"] = func(m *Machine, caller *frame, fn *ssa.Function, args []value) (value, bool) {
		m.setCell(sbBuf(m, args[0]), []value(nil))
		return nil, true
	}
	intrinsics["(*strings.Builder).Grow"] = func(m *Machine, caller *frame, fn *ssa.Function, args []value) (value, bool) {
		n := int64(m.concretize(args[1].(*Term)))
		if n < 0 {
			m.goPanic("strings.Builder.Grow: negative count")
		}
		cell := sbBuf(m, args[0])
		cur, _ := (*cell).([]value)
		if cap(cur)-len(cur) < int(n) {
			nb := make([]value, len(cur), 2*cap(cur)+int(n))
			copy(nb, cur)
			full := nb[:cap(nb)]
			for i := len(cur); i < len(full); i++ {
				full[i] = m.st.BV(8, 0)
			}
			m.setCell(cell, nb)
		}
		return nil, true
	}

	// ---- unicode predicates and case mapping ----
	for name, uf := range unicodeUF {
		name, uf := name, uf
		intrinsics["unicode."+name] = func(m *Machine, caller *frame, fn *ssa.Function, args []value) (value, bool) {
			r := args[0].(*Term)
			return m.st.App(uf, r), true
		}
	}

	// ---- time ----
	intrinsics["time.Now"] = func(m *Machine, caller *frame, fn *ssa.Function, args []value) (value, bool) {
		// assumption A-clock: a fixed instant (wall=0 => no monotonic reading, ext = seconds since year 1)
		m.clockReads++
		return structure{m.st.BV(64, 0), m.st.BV(64, 63900000000), (*value)(nil)}, true
	}

	// ---- sync ----
	intrinsics["(*sync.Once).Do"] = func(m *Machine, caller *frame, fn *ssa.Function, args []value) (value, bool) {
		p := args[0].(*value)
		if m.onceDone[p] {
			return nil, true
		}
		m.onceDone[p] = true
		m.logUndo(func() { delete(m.onceDone, p) })
		m.callFrom(caller, args[1], nil)
		return nil, true
	}
	// sync.Pool: a deterministic LIFO of the values that were Put (the real pool may hand back any of
	// them or a new one; LIFO is the schedule that exposes stale state)
	intrinsics["(*sync.Pool).Get"] = func(m *Machine, caller *frame, fn *ssa.Function, args []value) (value, bool) {
		p := args[0].(*value)
		if st := m.pools[p]; len(st) > 0 {
			v := st[len(st)-1]
			m.pools[p] = st[:len(st)-1]
			m.logUndo(func() { m.pools[p] = append(m.pools[p], v) })
			return v, true
		}
		// New is the last field of sync.Pool
		fields := (*p).(structure)
		newFn := fields[len(fields)-1]
		if f, ok := newFn.(*ssa.Function); ok && f == nil {
			return iface{}, true
		}
		return m.callFrom(caller, newFn, nil), true
	}
	intrinsics["(*sync.Pool).Put"] = func(m *Machine, caller *frame, fn *ssa.Function, args []value) (value, bool) {
		p := args[0].(*value)
		m.pools[p] = append(m.pools[p], args[1])
		m.logUndo(func() { m.pools[p] = m.pools[p][:len(m.pools[p])-1] })
		return nil, true
	}
	lockOp := func(kind string) intrinsicFn {
		return func(m *Machine, caller *frame, fn *ssa.Function, args []value) (value, bool) {
			m.lockEvent(kind, args[0].(*value))
			return nil, true
		}
	}
	intrinsics["(*sync.Mutex).Lock"] = lockOp("lock")
	intrinsics["(*sync.Mutex).Unlock"] = lockOp("unlock")
	intrinsics["(*sync.RWMutex).Lock"] = lockOp("lock")
	intrinsics["(*sync.RWMutex).Unlock"] = lockOp("unlock")
	intrinsics["(*sync.RWMutex).RLock"] = lockOp("rlock")
	intrinsics["(*sync.RWMutex).RUnlock"] = lockOp("runlock")
	intrinsics["(*sync.WaitGroup).Add"] = func(m *Machine, caller *frame, fn *ssa.Function, args []value) (value, bool) {
		p := args[0].(*value)
		d := int(int64(m.concretize(args[1].(*Term))))
		old := m.wgCount[p]
		m.wgCount[p] = old + d
		m.logUndo(func() { m.wgCount[p] = old })
		if m.wgCount[p] < 0 {
			m.goPanic("sync: negative WaitGroup counter")
		}
		m.syncEvent("wg-add", p)
		return nil, true
	}
	intrinsics["(*sync.WaitGroup).Done"] = func(m *Machine, caller *frame, fn *ssa.Function, args []value) (value, bool) {
		p := args[0].(*value)
		old := m.wgCount[p]
		m.wgCount[p] = old - 1
		m.logUndo(func() { m.wgCount[p] = old })
		if m.wgCount[p] < 0 {
			m.goPanic("sync: negative WaitGroup counter")
		}
		m.syncEvent("wg-done", p)
		return nil, true
	}
	intrinsics["(*sync.WaitGroup).Wait"] = func(m *Machine, caller *frame, fn *ssa.Function, args []value) (value, bool) {
		p := args[0].(*value)
		if m.wgCount[p] != 0 {
			m.incomplete("WaitGroup.Wait would block in the run-to-completion goroutine model")
		}
		m.syncEvent("wg-wait", p)
		return nil, true
	}

	// ---- sort.Slice (the real one goes through reflectlite.Swapper) ----
	sortSlice := func(stable bool) intrinsicFn {
		return func(m *Machine, caller *frame, fn *ssa.Function, args []value) (value, bool) {
			x, _ := args[0].(iface).v.([]value)
			less := args[1]
			n := len(x)
			swap := &hostFunc{name: "swap", fn: func(m *Machine, a []value) value {
				i, j := m.concretize(a[0].(*Term)), m.concretize(a[1].(*Term))
				if i >= uint64(n) || j >= uint64(n) {
					m.goPanic("runtime error: index out of range in sort.Slice swap")
				}
				ti, tj := copyVal(x[i]), copyVal(x[j])
				m.setCell(&x[i], tj)
				m.setCell(&x[j], ti)
				return nil
			}}
			ls := structure{less, swap}
			if stable {
				m.call(m.stdFunc("sort", "stable_func"), []value{ls, m.st.BV(64, uint64(n))})
			} else {
				limit := 0
				for v := n; v > 0; v >>= 1 {
					limit++
				}
				m.call(m.stdFunc("sort", "pdqsort_func"), []value{ls, m.st.BV(64, 0), m.st.BV(64, uint64(n)), m.st.BV(64, uint64(limit))})
			}
			return nil, true
		}
	}
	intrinsics["sort.Slice"] = sortSlice(false)
	intrinsics["sort.SliceStable"] = sortSlice(true)

	// ---- crc32 ----
	intrinsics["hash/crc32.ieeeInit"] = nop
	intrinsics["hash/crc32.update"] = func(m *Machine, caller *frame, fn *ssa.Function, args []value) (value, bool) {
		// update(crc uint32, tab *Table, p []byte, checkInitIEEE bool): only the IEEE table is used by the repo
		p := args[2].([]value)
		buf := make([]byte, len(p))
		for i, e := range p {
			t := e.(*Term)
			if t.Op != OpConst {
				buf[i] = byte(m.concretize(t))
			} else {
				buf[i] = byte(t.C)
			}
		}
		crc := uint32(m.concretize(args[0].(*Term)))
		return m.st.BV(32, uint64(crc32.Update(crc, crc32.IEEETable, buf))), true
	}

	intrinsics["hash/crc32.ChecksumIEEE"] = func(m *Machine, caller *frame, fn *ssa.Function, args []value) (value, bool) {
		p := args[0].([]value)
		buf := make([]byte, len(p))
		for i, e := range p {
			buf[i] = byte(m.concretize(e.(*Term)))
		}
		return m.st.BV(32, uint64(crc32.ChecksumIEEE(buf))), true
	}

	// ---- regexp (host objects) ----
	intrinsics["regexp.MustCompile"] = func(m *Machine, caller *frame, fn *ssa.Function, args []value) (value, bool) {
		s, ok := args[0].(string)
		if !ok {
			return nil, false // symbolic pattern: interpret the real compiler
		}
		re, err := regexp.Compile(s)
		if err != nil {
			m.goPanic("regexp: Compile(" + s + "): " + err.Error())
		}
		return &native{re}, true
	}
	intrinsics["regexp.QuoteMeta"] = func(m *Machine, caller *frame, fn *ssa.Function, args []value) (value, bool) {
		s, ok := args[0].(string)
		if !ok {
			return nil, false
		}
		return regexp.QuoteMeta(s), true
	}
	intrinsics["(*regexp.Regexp).MatchString"] = func(m *Machine, caller *frame, fn *ssa.Function, args []value) (value, bool) {
		nv, ok := args[0].(*native)
		if !ok {
			return nil, false
		}
		re := nv.v.(*regexp.Regexp)
		if s, ok := args[1].(string); ok {
			return m.st.Bool(re.MatchString(s)), true
		}
		return m.regexMatchSym(re, args[1].(*SymStr)), true
	}
	for _, meth := range []string{"ReplaceAllString", "FindAllStringIndex", "FindStringIndex", "FindAllString", "FindString",
		"String", "ReplaceAllLiteralString", "FindStringSubmatch", "FindAllStringSubmatchIndex", "Split", "MatchReader", "Match"} {
		meth := meth
		intrinsics["(*regexp.Regexp)."+meth] = func(m *Machine, caller *frame, fn *ssa.Function, args []value) (value, bool) {
			nv, ok := args[0].(*native)
			if !ok {
				return nil, false
			}
			for _, a := range args[1:] {
				if !isConcrete(a) {
					// concretise the symbolic string byte by byte (bounded enumeration, stated in evidence)
					m.Intrinsics["regexp-concretised-arg"]++
				}
			}
			return m.nativeCall(reflect.ValueOf(nv.v).MethodByName(meth), fn.Signature, args[1:], true), true
		}
	}

	// ---- pure string helpers on concrete arguments (speed) ----
	natives := map[string]interface{}{
		"strings.Index": strings.Index, "strings.Split": strings.Split, "strings.ReplaceAll": strings.ReplaceAll,
		"strings.Replace": strings.Replace, "strings.HasPrefix": strings.HasPrefix, "strings.HasSuffix": strings.HasSuffix,
		"strings.Contains": strings.Contains, "strings.Count": strings.Count, "strings.Join": strings.Join,
		"strings.ToLower": strings.ToLower, "strings.ToUpper": strings.ToUpper, "strings.TrimSpace": strings.TrimSpace,
		"strings.Fields": strings.Fields, "strings.IndexByte": strings.IndexByte, "strings.LastIndex": strings.LastIndex,
		"strings.Repeat": strings.Repeat, "strings.IndexRune": strings.IndexRune, "strings.EqualFold": strings.EqualFold,
		"html.UnescapeString": html.UnescapeString, "html.EscapeString": html.EscapeString,
		"strings.TrimRight": strings.TrimRight, "strings.TrimLeft": strings.TrimLeft, "strings.Trim": strings.Trim,
		"strings.TrimPrefix": strings.TrimPrefix, "strings.TrimSuffix": strings.TrimSuffix, "strings.SplitN": strings.SplitN,
		"strings.LastIndexByte": strings.LastIndexByte, "strings.IndexAny": strings.IndexAny, "strings.ContainsRune": strings.ContainsRune,
		"strings.ContainsAny": strings.ContainsAny, "strings.Title": strings.Title,
	}
	for name, f := range natives {
		f := f
		intrinsics[name] = func(m *Machine, caller *frame, fn *ssa.Function, args []value) (value, bool) {
			for _, a := range args {
				if !isConcrete(a) {
					return nil, false
				}
			}
			return m.nativeCall(reflect.ValueOf(f), fn.Signature, args, false), true
		}
	}

	// ---- math ----
	intrinsics["math.Round"] = func(m *Machine, caller *frame, fn *ssa.Function, args []value) (value, bool) {
		return m.st.FRound(args[0].(*Term), 0), true
	}
	intrinsics["math.Trunc"] = func(m *Machine, caller *frame, fn *ssa.Function, args []value) (value, bool) {
		return m.st.FRound(args[0].(*Term), 1), true
	}
	intrinsics["math.Floor"] = func(m *Machine, caller *frame, fn *ssa.Function, args []value) (value, bool) {
		return m.st.FRound(args[0].(*Term), 2), true
	}
	intrinsics["math.Ceil"] = func(m *Machine, caller *frame, fn *ssa.Function, args []value) (value, bool) {
		return m.st.FRound(args[0].(*Term), 3), true
	}
	intrinsics["math.Abs"] = func(m *Machine, caller *frame, fn *ssa.Function, args []value) (value, bool) {
		return m.st.Un(OpFAbs, args[0].(*Term)), true
	}
	intrinsics["math.IsNaN"] = func(m *Machine, caller *frame, fn *ssa.Function, args []value) (value, bool) {
		return m.st.Un(OpFIsNaN, args[0].(*Term)), true
	}
	intrinsics["math.Float64frombits"] = func(m *Machine, caller *frame, fn *ssa.Function, args []value) (value, bool) {
		return m.st.FBits(args[0].(*Term), SF64), true
	}
	intrinsics["math.Float64bits"] = func(m *Machine, caller *frame, fn *ssa.Function, args []value) (value, bool) {
		t := args[0].(*Term)
		if t.Op == OpConst {
			return m.st.BV(64, t.C), true
		}
		m.unsupported("math.Float64bits of a symbolic float")
		return nil, true
	}
	intrinsics["math.Inf"] = func(m *Machine, caller *frame, fn *ssa.Function, args []value) (value, bool) {
		s := int64(m.concretize(args[0].(*Term)))
		return m.st.F64(math.Inf(int(s))), true
	}

	// ---- bytealg assembly stand-ins are not needed: the generic Go versions live in internal/bytealg ----
	intrinsics["internal/bytealg.IndexByteString"] = func(m *Machine, caller *frame, fn *ssa.Function, args []value) (value, bool) {
		s := args[0]
		c := args[1].(*Term)
		n := strLen(s)
		for i := 0; i < n; i++ {
			if m.branch(m.st.Eq(m.strByte(s, i), c)) {
				return m.st.BV(64, uint64(i)), true
			}
		}
		return m.st.BV(64, ^uint64(0)), true
	}
	intrinsics["internal/bytealg.IndexByte"] = func(m *Machine, caller *frame, fn *ssa.Function, args []value) (value, bool) {
		s := args[0].([]value)
		c := args[1].(*Term)
		for i := range s {
			if m.branch(m.st.Eq(s[i].(*Term), c)) {
				return m.st.BV(64, uint64(i)), true
			}
		}
		return m.st.BV(64, ^uint64(0)), true
	}
	intrinsics["internal/bytealg.CountString"] = func(m *Machine, caller *frame, fn *ssa.Function, args []value) (value, bool) {
		s := args[0]
		c := args[1].(*Term)
		n := strLen(s)
		cnt := m.st.BV(64, 0)
		for i := 0; i < n; i++ {
			cnt = m.st.Bin(OpAdd, cnt, m.st.Ite(m.st.Eq(m.strByte(s, i), c), m.st.BV(64, 1), m.st.BV(64, 0)))
		}
		return cnt, true
	}
	intrinsics["internal/bytealg.Equal"] = func(m *Machine, caller *frame, fn *ssa.Function, args []value) (value, bool) {
		a, b := args[0].([]value), args[1].([]value)
		if len(a) != len(b) {
			return m.st.ff, true
		}
		r := m.st.tt
		for i := range a {
			r = m.st.And(r, m.st.Eq(a[i].(*Term), b[i].(*Term)))
		}
		return r, true
	}
	intrinsics["internal/bytealg.IndexString"] = func(m *Machine, caller *frame, fn *ssa.Function, args []value) (value, bool) {
		a, b := args[0], args[1]
		la, lb := strLen(a), strLen(b)
		for i := 0; i+lb <= la; i++ {
			if m.branch(m.strEq(m.strSlice(a, i, i+lb), b)) {
				return m.st.BV(64, uint64(i)), true
			}
		}
		return m.st.BV(64, ^uint64(0)), true
	}
	intrinsics["internal/bytealg.MakeNoZero"] = func(m *Machine, caller *frame, fn *ssa.Function, args []value) (value, bool) {
		n := int(m.concretize(args[0].(*Term)))
		sl := make([]value, n)
		for i := range sl {
			sl[i] = m.st.BV(8, 0)
		}
		return sl, true
	}
	intrinsics["internal/bytealg.Compare"] = func(m *Machine, caller *frame, fn *ssa.Function, args []value) (value, bool) {
		a, b := args[0].([]value), args[1].([]value)
		toS := func(x []value) value {
			bs := make([]*Term, len(x))
			for i, e := range x {
				bs[i] = e.(*Term)
			}
			return mkStr(bs)
		}
		sa, sb := toS(a), toS(b)
		lt := m.strLess(sa, sb)
		gt := m.strLess(sb, sa)
		return m.st.Ite(lt, m.st.BV(64, ^uint64(0)), m.st.Ite(gt, m.st.BV(64, 1), m.st.BV(64, 0))), true
	}
	intrinsics["internal/stringslite.Index"] = nil
	delete(intrinsics, "internal/stringslite.Index")

	intrinsics["runtime.KeepAlive"] = nop
	intrinsics["os.Exit"] = func(m *Machine, caller *frame, fn *ssa.Function, args []value) (value, bool) {
		m.goPanic("os.Exit called")
		return nil, true
	}
}

var _ = sync.Once{}

// ---------- unicode ----------

var unicodeUF = map[string]string{
	"IsLetter": "uIsLetter", "IsDigit": "uIsDigit", "IsSpace": "uIsSpace", "IsPunct": "uIsPunct",
	"IsUpper": "uIsUpper", "IsLower": "uIsLower", "IsNumber": "uIsNumber", "IsSymbol": "uIsSymbol",
	"IsMark": "uIsMark", "IsControl": "uIsControl", "IsPrint": "uIsPrint", "IsGraphic": "uIsGraphic", "IsTitle": "uIsTitle",
	"ToLower": "uToLower", "ToUpper": "uToUpper", "ToTitle": "uToTitle", "SimpleFold": "uSimpleFold",
}

var unicodeNative = map[string]interface{}{
	"uIsLetter": unicode.IsLetter, "uIsDigit": unicode.IsDigit, "uIsSpace": unicode.IsSpace, "uIsPunct": unicode.IsPunct,
	"uIsUpper": unicode.IsUpper, "uIsLower": unicode.IsLower, "uIsNumber": unicode.IsNumber, "uIsSymbol": unicode.IsSymbol,
	"uIsMark": unicode.IsMark, "uIsControl": unicode.IsControl, "uIsPrint": unicode.IsPrint, "uIsGraphic": unicode.IsGraphic,
	"uIsTitle": unicode.IsTitle,
	"uToLower": unicode.ToLower, "uToUpper": unicode.ToUpper, "uToTitle": unicode.ToTitle, "uSimpleFold": unicode.SimpleFold,
}

type ufShared struct {
	eager string
	runs  int
}

var (
	ufOnce   sync.Once
	ufEager  = map[string]string{}
	ufRunCnt = map[string]int{}
)

const maxRune = 0x10FFFF

func computeEager() {
	for name, f := range unicodeNative {
		pred, ok := f.(func(rune) bool)
		if !ok {
			continue
		}
		type run struct{ lo, hi uint32 }
		var runs []run
		in := false
		var lo uint32
		for r := uint32(0); r <= maxRune; r++ {
			v := pred(rune(r))
			if v && !in {
				in, lo = true, r
			} else if !v && in {
				in = false
				runs = append(runs, run{lo, r - 1})
			}
		}
		if in {
			runs = append(runs, run{lo, maxRune})
		}
		ufRunCnt[name] = len(runs)
		if len(runs) <= 160 {
			var sb strings.Builder
			sb.WriteString("(or false")
			for _, r := range runs {
				if r.lo == r.hi {
					fmt.Fprintf(&sb, " (= x #x%08x)", r.lo)
				} else {
					fmt.Fprintf(&sb, " (and (bvule #x%08x x) (bvule x #x%08x))", r.lo, r.hi)
				}
			}
			sb.WriteString(")")
			ufEager[name] = sb.String()
		}
	}
}

func (m *Machine) registerUnicode() {
	ufOnce.Do(computeEager)
	for name, f := range unicodeNative {
		name := name
		switch f := f.(type) {
		case func(rune) bool:
			d := &UFDef{Name: name, In: []Sort{S32}, Out: SBool, Eager: ufEager[name]}
			if d.Eager == "" {
				var sb strings.Builder
				sb.WriteString("(or false")
				for r := 0; r <= 0xFF; r++ {
					if f(rune(r)) {
						lo := r
						for r+1 <= 0xFF && f(rune(r+1)) {
							r++
						}
						fmt.Fprintf(&sb, " (and (bvule #x%08x x) (bvule x #x%08x))", lo, r)
					}
				}
				sb.WriteString(")")
				d.EagerLo = sb.String()
			}
			d.Native = func(a []uint64) uint64 { return b2u(f(rune(int32(uint32(a[0]))))) }
			d.Lemma = func(arg uint64) (uint64, uint64, int, uint64, uint64) {
				g := func(x uint64) uint64 { return b2u(f(rune(int32(uint32(x))))) }
				lo, hi, par := scanRunT(getRunTable(name, g), arg)
				return lo, hi, par, g(arg), 0
			}
			m.st.UF[name] = d
		case func(rune) rune:
			d := &UFDef{Name: name, In: []Sort{S32}, Out: S32}
			{
				var sb strings.Builder
				closers := 0
				for r := 0; r <= 0xFF; r++ {
					delta := uint32(f(rune(r))) - uint32(r)
					if delta != 0 {
						lo := r
						for r+1 <= 0xFF && uint32(f(rune(r+1)))-uint32(r+1) == delta {
							r++
						}
						fmt.Fprintf(&sb, "(ite (and (bvule #x%08x x) (bvule x #x%08x)) (bvadd x #x%08x) ", lo, r, delta)
						closers++
					}
				}
				sb.WriteString("x")
				sb.WriteString(strings.Repeat(")", closers))
				d.EagerLo = sb.String()
			}
			d.Native = func(a []uint64) uint64 { return uint64(uint32(f(rune(int32(uint32(a[0])))))) }
			d.Coarse = coarseCaseAxiom(name, f)
			d.Lemma = func(arg uint64) (uint64, uint64, int, uint64, uint64) {
				g := func(x uint64) uint64 { // delta
					return uint64(uint32(f(rune(int32(uint32(x))))) - uint32(x))
				}
				lo, hi, par := scanRunT(getRunTable(name, g), arg)
				return lo, hi, par, g(arg), 1
			}
			m.st.UF[name] = d
		}
	}
}

func sizeClass(r uint32) int {
	switch {
	case r <= 0x7F:
		return 1
	case r <= 0x7FF:
		return 2
	case r >= 0xD800 && r <= 0xDFFF:
		return 0
	case r <= 0xFFFF:
		return 3
	case r <= 0x10FFFF:
		return 4
	}
	return 0
}

var (
	coarseMu    sync.Mutex
	coarseCache = map[string]func(an, fn string) string{}
)

// coarseCaseAxiom builds a globally valid fact about a case-mapping function f, used to let
// the solver refute UTF-8 size-class branches without enumerating every case range:
// above Latin-1, f(r) has the same UTF-8 length as r except at the listed code points
// (whose images are given exactly); surrogates and out-of-range values map to themselves.
func coarseCaseAxiom(name string, f func(rune) rune) func(an, fn string) string {
	coarseMu.Lock()
	defer coarseMu.Unlock()
	if c, ok := coarseCache[name]; ok {
		return c
	}
	type exc struct{ r, v uint32 }
	var excs []exc
	for r := uint32(0x100); r <= maxRune; r++ {
		v := uint32(f(rune(r)))
		if sizeClass(v) != sizeClass(r) {
			excs = append(excs, exc{r, v})
		}
	}
	c := func(an, fn string) string {
		var sb strings.Builder
		sb.WriteString("(and true")
		notExc := "(and true"
		for _, e := range excs {
			fmt.Fprintf(&sb, " (=> (= %s #x%08x) (= %s #x%08x))", an, e.r, fn, e.v)
			notExc += fmt.Sprintf(" (not (= %s #x%08x))", an, e.r)
		}
		notExc += ")"
		rng := func(lo, hi uint32) string {
			return fmt.Sprintf(" (=> (and (bvule #x%08x %s) (bvule %s #x%08x) %s) (and (bvule #x%08x %s) (bvule %s #x%08x)))", lo, an, an, hi, notExc, lo, fn, fn, hi)
		}
		sb.WriteString(rng(0x100, 0x7FF))
		sb.WriteString(rng(0x800, 0xD7FF))
		sb.WriteString(rng(0xE000, 0xFFFF))
		sb.WriteString(rng(0x10000, 0x10FFFF))
		fmt.Fprintf(&sb, " (=> (and (bvule #x0000d800 %s) (bvule %s #x0000dfff)) (= %s %s))", an, an, fn, an)
		fmt.Fprintf(&sb, " (=> (bvult #x0010ffff %s) (= %s %s))", an, fn, an)
		sb.WriteString(")")
		return sb.String()
	}
	coarseCache[name] = c
	return c
}

// runTable holds the maximal runs of constant value of a function over 0..maxRune.
type runTable struct {
	starts []uint32 // starts[i] is the first code point of run i
	vals   []uint64
}

var (
	runTabMu sync.Mutex
	runTabs  = map[string]*runTable{}
)

func getRunTable(key string, g func(uint64) uint64) *runTable {
	runTabMu.Lock()
	defer runTabMu.Unlock()
	if rt, ok := runTabs[key]; ok {
		return rt
	}
	rt := &runTable{}
	var cur uint64
	for r := uint64(0); r <= maxRune; r++ {
		v := g(r)
		if r == 0 || v != cur {
			rt.starts = append(rt.starts, uint32(r))
			rt.vals = append(rt.vals, v)
			cur = v
		}
	}
	runTabs[key] = rt
	return rt
}

func (rt *runTable) end(i int) uint64 {
	if i+1 < len(rt.starts) {
		return uint64(rt.starts[i+1]) - 1
	}
	return maxRune
}

// scanRun finds a maximal interval around v (within the 32-bit unsigned
// domain) on which g is constant, or constant on every second point.
func scanRunT(rt *runTable, v uint64) (lo, hi uint64, par int) {
	if v > maxRune {
		return maxRune + 1, 0xFFFFFFFF, -1
	}
	i := sort.Search(len(rt.starts), func(k int) bool { return uint64(rt.starts[k]) > v }) - 1
	lo, hi = uint64(rt.starts[i]), rt.end(i)
	if lo != hi {
		return lo, hi, -1
	}
	single := func(k int) bool { return k >= 0 && k < len(rt.starts) && uint64(rt.starts[k]) == rt.end(k) }
	l, r := i, i
	for single(l-1) && single(l-2) && rt.vals[l-2] == rt.vals[i] {
		l -= 2
	}
	for single(r+1) && single(r+2) && rt.vals[r+2] == rt.vals[i] {
		r += 2
	}
	if l == r {
		return lo, hi, -1
	}
	return uint64(rt.starts[l]), uint64(rt.starts[r]), 0
}

// ---------- fmt ----------

// sprint implements fmt.Sprint (ln=false) / fmt.Sprintln (ln=true).
func (m *Machine) sprint(args []value, ln bool) value {
	var out value = ""
	prevStr := false
	for i, a := range args {
		it := a.(iface)
		isStr := it.t != nil && isString(it.t)
		if i > 0 && (ln || (!isStr && !prevStr)) {
			out = m.strConcat(out, " ")
		}
		out = m.strConcat(out, m.formatArg('v', "", it))
		prevStr = isStr
	}
	if ln {
		out = m.strConcat(out, "\n")
	}
	return out
}

func (m *Machine) sprintf(format value, args []value) value {
	f, ok := format.(string)
	if !ok {
		m.unsupported("symbolic format string")
	}
	var out value = ""
	argi := 0
	i := 0
	for i < len(f) {
		j := strings.IndexByte(f[i:], '%')
		if j < 0 {
			out = m.strConcat(out, f[i:])
			break
		}
		out = m.strConcat(out, f[i:i+j])
		i += j
		// parse verb
		k := i + 1
		for k < len(f) && strings.IndexByte("+-# 0123456789.", f[k]) >= 0 {
			k++
		}
		if k >= len(f) {
			out = m.strConcat(out, "%!(NOVERB)")
			break
		}
		verb := f[k]
		flags := f[i+1 : k]
		i = k + 1
		if verb == '%' {
			out = m.strConcat(out, "%")
			continue
		}
		if argi >= len(args) {
			out = m.strConcat(out, "%!"+string(verb)+"(MISSING)")
			continue
		}
		out = m.strConcat(out, m.formatArg(verb, flags, args[argi].(iface)))
		argi++
	}
	return out
}

func (m *Machine) formatArg(verb byte, flags string, a iface) value {
	spec := "%" + flags + string(verb)
	if a.t == nil {
		return fmt.Sprintf(spec, nil)
	}
	switch v := a.v.(type) {
	case string:
		return fmt.Sprintf(spec, v)
	case *SymStr:
		if (verb == 's' || verb == 'v') && flags == "" {
			return v
		}
		m.unsupported("formatting a symbolic string with " + spec)
	case *Term:
		so, signed := m.sortOf(a.t)
		if v.Op != OpConst {
			if verb == 'c' && flags == "" {
				return mkStr(m.encodeRune(m.st.Resize(v, 32, signed)))
			}
			// concretise (bounded enumeration)
			c := m.concretize(v)
			v = m.st.Const(v.Sort, c)
		}
		switch so.K {
		case KBool:
			return fmt.Sprintf(spec, v.C != 0)
		case KFP:
			return fmt.Sprintf(spec, fval(so, v.C))
		default:
			if signed {
				if so.W == 32 && verb == 'c' {
					return fmt.Sprintf(spec, rune(int32(uint32(v.C))))
				}
				return fmt.Sprintf(spec, sext(v.C, so.W))
			}
			return fmt.Sprintf(spec, v.C)
		}
	case *value:
		// error values and Stringers are not invoked; print a placeholder type name
		return fmt.Sprintf("<%s>", a.t.String())
	}
	return fmt.Sprintf("<%s>", a.t.String())
}

// ---------- native calls through reflection ----------

func (m *Machine) toNative(v value, rt reflect.Type, force bool) reflect.Value {
	switch rt.Kind() {
	case reflect.String:
		switch s := v.(type) {
		case string:
			return reflect.ValueOf(s).Convert(rt)
		case *SymStr:
			if !force {
				m.unsupported("symbolic string passed to native function")
			}
			bs := make([]byte, len(s.b))
			for i, b := range s.b {
				bs[i] = byte(m.concretize(b))
			}
			return reflect.ValueOf(string(bs)).Convert(rt)
		}
	case reflect.Bool:
		t := v.(*Term)
		return reflect.ValueOf(m.concretize(t) != 0).Convert(rt)
	case reflect.Int, reflect.Int8, reflect.Int16, reflect.Int32, reflect.Int64:
		t := v.(*Term)
		c := m.concretize(t)
		return reflect.ValueOf(sext(c, t.Sort.W)).Convert(rt)
	case reflect.Uint, reflect.Uint8, reflect.Uint16, reflect.Uint32, reflect.Uint64, reflect.Uintptr:
		t := v.(*Term)
		return reflect.ValueOf(m.concretize(t)).Convert(rt)
	case reflect.Float64, reflect.Float32:
		t := v.(*Term)
		return reflect.ValueOf(fval(t.Sort, m.concretize(t))).Convert(rt)
	case reflect.Slice:
		sl, _ := v.([]value)
		out := reflect.MakeSlice(rt, len(sl), len(sl))
		for i, e := range sl {
			out.Index(i).Set(m.toNative(e, rt.Elem(), force))
		}
		if sl == nil {
			return reflect.Zero(rt)
		}
		return out
	}
	m.unsupported("native argument of kind " + rt.Kind().String())
	return reflect.Value{}
}

func (m *Machine) fromNative(rv reflect.Value, t types.Type) value {
	switch rv.Kind() {
	case reflect.String:
		return rv.String()
	case reflect.Bool:
		return m.st.Bool(rv.Bool())
	case reflect.Int, reflect.Int8, reflect.Int16, reflect.Int32, reflect.Int64:
		so, _ := m.sortOf(t)
		return m.st.BV(so.W, uint64(rv.Int()))
	case reflect.Uint, reflect.Uint8, reflect.Uint16, reflect.Uint32, reflect.Uint64, reflect.Uintptr:
		so, _ := m.sortOf(t)
		return m.st.BV(so.W, rv.Uint())
	case reflect.Float64:
		return m.st.F64(rv.Float())
	case reflect.Slice:
		if rv.IsNil() {
			return []value(nil)
		}
		et := t.Underlying().(*types.Slice).Elem()
		out := make([]value, rv.Len())
		for i := range out {
			out[i] = m.fromNative(rv.Index(i), et)
		}
		return out
	case reflect.Ptr:
		if rv.IsNil() {
			return (*value)(nil)
		}
		return &native{rv.Interface()}
	}
	m.unsupported("native result of kind " + rv.Kind().String())
	return nil
}

func (m *Machine) nativeCall(f reflect.Value, sig *types.Signature, args []value, force bool) value {
	ft := f.Type()
	in := make([]reflect.Value, len(args))
	for i, a := range args {
		var pt reflect.Type
		if ft.IsVariadic() && i >= ft.NumIn()-1 {
			pt = ft.In(ft.NumIn() - 1)
			if i == ft.NumIn()-1 {
				// SSA passes the variadic slice as one argument
				in[i] = m.toNative(a, pt, force)
				out := f.CallSlice(in[:i+1])
				return m.nativeResults(out, sig)
			}
		} else {
			pt = ft.In(i)
		}
		in[i] = m.toNative(a, pt, force)
	}
	return m.nativeResults(f.Call(in), sig)
}

func (m *Machine) nativeResults(out []reflect.Value, sig *types.Signature) value {
	res := sig.Results()
	switch len(out) {
	case 0:
		return nil
	case 1:
		return m.fromNative(out[0], res.At(0).Type())
	}
	t := make(tuple, len(out))
	for i := range out {
		t[i] = m.fromNative(out[i], res.At(i).Type())
	}
	return t
}

func (m *Machine) callNativeMethod(nm *nativeMethod, args []value) value {
	meth := reflect.ValueOf(nm.recv.v).MethodByName(nm.name)
	if !meth.IsValid() {
		m.unsupported("native method " + nm.name)
	}
	return m.nativeCall(meth, nm.sig, args, true)
}
