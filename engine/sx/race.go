package sx

import (
	"fmt"
	"strings"
)

// predictRace encodes the happens-before constraints of the recorded event trace as an
// SMT problem over integer order variables and asks, for every pair of conflicting
// accesses from different goroutines, whether a schedule exists in which they are adjacent
// (i.e. unordered by happens-before).  It returns a description of the first race found.
func (m *Machine) predictRace() string {
	// keep synchronisation events and the memory accesses to shared state: everything reachable
	// from the tracked roots now (objects created during the run included)
	m.retrack()
	var ev []Event
	for _, e := range m.events {
		if e.Kind == "rd" || e.Kind == "wr" {
			if e.P != nil && !m.trackCell[e.P] {
				continue
			}
			if e.M != nil && !m.trackMap[e.M] {
				continue
			}
			// consecutive identical accesses by one goroutine carry no extra information
			if k := len(ev); k > 0 && ev[k-1].G == e.G && ev[k-1].Kind == e.Kind && ev[k-1].Obj == e.Obj {
				continue
			}
		}
		ev = append(ev, e)
	}
	n := len(ev)
	if n == 0 {
		return ""
	}
	var sb strings.Builder
	sb.WriteString("(set-logic ALL)\n")
	for i := range ev {
		fmt.Fprintf(&sb, "(declare-const o%d Int)\n", i)
	}
	// all distinct
	sb.WriteString("(assert (distinct")
	for i := range ev {
		fmt.Fprintf(&sb, " o%d", i)
	}
	sb.WriteString("))\n")
	// program order
	last := map[int]int{}
	begin := map[int]int{}
	end := map[int]int{}
	for i, e := range ev {
		if p, ok := last[e.G]; ok {
			fmt.Fprintf(&sb, "(assert (< o%d o%d))\n", p, i)
		}
		last[e.G] = i
		switch e.Kind {
		case "begin":
			begin[e.G] = i
		case "end":
			end[e.G] = i
		}
	}
	// fork edges
	for i, e := range ev {
		if e.Kind == "fork" {
			if b, ok := begin[e.Arg]; ok {
				fmt.Fprintf(&sb, "(assert (< o%d o%d))\n", i, b)
			}
		}
	}
	// WaitGroup: every Done before a later Wait on the same group
	for i, e := range ev {
		if e.Kind != "wg-wait" {
			continue
		}
		for j, d := range ev {
			if j < i && d.Kind == "wg-done" && d.Obj == e.Obj {
				fmt.Fprintf(&sb, "(assert (< o%d o%d))\n", j, i)
			}
		}
	}
	// channel: a send happens before the matching receive is not modelled (none in scope)
	// mutexes: critical sections on the same mutex by different goroutines do not overlap
	type cs struct {
		g, acq, rel int
		read       bool
		obj        string
	}
	var sections []cs
	open := map[string][]int{} // key g|obj -> stack of acquire indices
	for i, e := range ev {
		k := fmt.Sprintf("%d|%s", e.G, e.Obj)
		switch e.Kind {
		case "lock", "rlock":
			open[k] = append(open[k], i)
		case "unlock", "runlock":
			st := open[k]
			if len(st) > 0 {
				a := st[len(st)-1]
				open[k] = st[:len(st)-1]
				sections = append(sections, cs{e.G, a, i, e.Kind == "runlock", e.Obj})
			}
		}
	}
	for a := 0; a < len(sections); a++ {
		for b := a + 1; b < len(sections); b++ {
			x, y := sections[a], sections[b]
			if x.obj != y.obj || x.g == y.g || (x.read && y.read) {
				continue
			}
			fmt.Fprintf(&sb, "(assert (or (< o%d o%d) (< o%d o%d)))\n", x.rel, y.acq, y.rel, x.acq)
		}
	}
	prelude := sb.String()
	// reads-from relation of the recorded run: every read observed the latest earlier write
	// to the same location (or the initial value, rf = -1)
	rf := map[int]int{}
	lastW := map[string]int{}
	writes := map[string][]int{}
	for i, e := range ev {
		switch e.Kind {
		case "rd":
			if w, ok := lastW[e.Obj]; ok {
				rf[i] = w
			} else {
				rf[i] = -1
			}
		case "wr":
			lastW[e.Obj] = i
			writes[e.Obj] = append(writes[e.Obj], i)
		}
	}
	// rfConstraints: every read except the two under test sees the same write as in the recorded
	// run, so that the control flow of the predicted schedule is the recorded one
	rfConstraints := func(skipA, skipB int) string {
		var cb strings.Builder
		for r, w := range rf {
			if r == skipA || r == skipB {
				continue
			}
			for _, w2 := range writes[ev[r].Obj] {
				if w2 == w || ev[w2].G == ev[r].G && w2 > r && false {
					continue
				}
				if w >= 0 {
					fmt.Fprintf(&cb, "(assert (< o%d o%d))\n", w, r)
					fmt.Fprintf(&cb, "(assert (or (< o%d o%d) (< o%d o%d)))\n", w2, w, r, w2)
				} else {
					fmt.Fprintf(&cb, "(assert (< o%d o%d))\n", r, w2)
				}
			}
			if w >= 0 && len(writes[ev[r].Obj]) == 1 {
				fmt.Fprintf(&cb, "(assert (< o%d o%d))\n", w, r)
			}
		}
		return cb.String()
	}
	// candidate pairs
	type pair struct{ a, b int }
	seen := map[string]bool{}
	for i := 0; i < n; i++ {
		if ev[i].Kind != "rd" && ev[i].Kind != "wr" {
			continue
		}
		for j := i + 1; j < n; j++ {
			if ev[j].Kind != "rd" && ev[j].Kind != "wr" {
				continue
			}
			if ev[i].Obj != ev[j].Obj || ev[i].G == ev[j].G || (ev[i].Kind == "rd" && ev[j].Kind == "rd") {
				continue
			}
			key := fmt.Sprintf("%s|%s|%s|%s|%d|%d", ev[i].Site, ev[i].Kind, ev[j].Site, ev[j].Kind, ev[i].G, ev[j].G)
			if seen[key] {
				continue
			}
			seen[key] = true
			q := prelude + rfConstraints(i, j) + fmt.Sprintf("(assert (or (= o%d (+ o%d 1)) (= o%d (+ o%d 1))))\n(check-sat)\n", j, i, i, j)
			m.RaceQueries++
			m.sol.Queries++
			res := rawCheck("z3-new", q, 60000)
			switch res {
			case Sat:
				m.sol.SatN++
				return fmt.Sprintf("%s of %s by goroutine %d in %s and %s by goroutine %d in %s are not ordered by happens-before",
					ev[i].Kind, ev[i].Obj, ev[i].G, ev[i].Site, ev[j].Kind, ev[j].G, ev[j].Site)
			case Unsat:
				m.sol.UnsatN++
			default:
				m.sol.UnknownN++
				m.markIncomplete = true
			}
		}
	}
	return ""
}
