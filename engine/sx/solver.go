package sx

import (
	"bufio"
	"bytes"
	"context"
	"fmt"
	"io"
	_ "os"
	"os/exec"
	"strconv"
	"strings"
	"time"
)

type Result int

const (
	Unsat Result = iota
	Sat
	Unknown
)

func (r Result) String() string { return [...]string{"unsat", "sat", "unknown"}[r] }

// Solver drives one long-lived SMT solver process over pipes.
type Solver struct {
	Kind   string // "z3", "z3-new", "cvc5"
	cmd    *exec.Cmd
	in     *bufio.Writer
	out    *bufio.Reader
	st     *Store
	names  map[*Term]string
	scopes [][]*Term // terms emitted per push level
	tabs   map[int]bool
	tabSc  [][]int
	ufs    map[string]bool
	Log    io.Writer

	Queries   int
	SatN      int
	UnsatN    int
	UnknownN  int
	Errors    int
	Time      time.Duration
	TimeoutMS int
	LastErr   string
	ValTime   time.Duration
	Dead      bool
	Restarts  int
	Timeouts  int
	AfterFlush bool
	FlushTime time.Duration
	FlushN int
}

func NewSolver(kind string, st *Store, timeoutMS int) (*Solver, error) {
	s := &Solver{Kind: kind, st: st, TimeoutMS: timeoutMS}
	if err := s.start(); err != nil {
		return nil, err
	}
	return s, nil
}

// Restart replaces a dead solver process by a fresh one (all context is lost).
func (s *Solver) Restart() error {
	if s.cmd != nil && s.cmd.Process != nil {
		s.cmd.Process.Kill()
		s.cmd.Wait()
	}
	s.Dead = false
	s.Restarts++
	return s.start()
}

func (s *Solver) start() error {
	kind, st, timeoutMS := s.Kind, s.st, s.TimeoutMS
	_ = st
	var cmd *exec.Cmd
	switch kind {
	case "z3", "z3-new":
		cmd = exec.Command(kind, "-in", "-smt2")
	case "cvc5":
		cmd = exec.Command("cvc5", "--incremental", "--produce-models", "--lang=smt2")
	default:
		return fmt.Errorf("unknown solver %q", kind)
	}
	stdin, err := cmd.StdinPipe()
	if err != nil {
		return err
	}
	stdout, err := cmd.StdoutPipe()
	if err != nil {
		return err
	}
	cmd.Stderr = nil
	if err := cmd.Start(); err != nil {
		return err
	}
	s.cmd = cmd
	s.in = bufio.NewWriterSize(stdin, 1<<16)
	s.out = bufio.NewReaderSize(stdout, 1<<16)
	s.names = map[*Term]string{}
	s.tabs = map[int]bool{}
	s.ufs = map[string]bool{}
	s.scopes = [][]*Term{nil}
	s.tabSc = [][]int{nil}
	if kind != "cvc5" {
		s.send("(set-option :produce-models true)")
		s.send(fmt.Sprintf("(set-option :timeout %d)", timeoutMS))
	} else {
		s.send("(set-logic ALL)")
	}
	return nil
}

func (s *Solver) Close() {
	if s.cmd != nil {
		s.send("(exit)")
		s.in.Flush()
		done := make(chan struct{})
		go func() { s.cmd.Wait(); close(done) }()
		select {
		case <-done:
		case <-time.After(2 * time.Second):
			s.cmd.Process.Kill()
		}
		s.cmd = nil
	}
}

func (s *Solver) send(line string) {
	if s.Log != nil {
		fmt.Fprintln(s.Log, line)
	}
	s.in.WriteString(line)
	s.in.WriteByte('\n')
}

func (s *Solver) Push() {
	s.send("(push 1)")
	s.scopes = append(s.scopes, nil)
	s.tabSc = append(s.tabSc, nil)
}

func (s *Solver) Pop() {
	s.send("(pop 1)")
	top := s.scopes[len(s.scopes)-1]
	for _, t := range top {
		delete(s.names, t)
	}
	s.scopes = s.scopes[:len(s.scopes)-1]
	for _, id := range s.tabSc[len(s.tabSc)-1] {
		delete(s.tabs, id)
	}
	s.tabSc = s.tabSc[:len(s.tabSc)-1]
}

func (s *Solver) Level() int { return len(s.scopes) - 1 }

func (s *Solver) declareUF(d *UFDef) {
	if s.ufs[d.Name] {
		return
	}
	if s.Level() != 0 {
		// UFs are declared at level 0 before any path starts
		panic("declareUF at level>0: " + d.Name)
	}
	s.ufs[d.Name] = true
	var ins []string
	for _, so := range d.In {
		ins = append(ins, so.String())
	}
	if d.Eager != "" {
		s.send(fmt.Sprintf("(define-fun %s ((x %s)) %s %s)", d.Name, ins[0], d.Out, d.Eager))
	} else if d.EagerLo != "" {
		s.send(fmt.Sprintf("(declare-fun %s_hi (%s) %s)", d.Name, strings.Join(ins, " "), d.Out))
		s.send(fmt.Sprintf("(define-fun %s ((x %s)) %s (ite (bvule x #x000000ff) %s (%s_hi x)))", d.Name, ins[0], d.Out, d.EagerLo, d.Name))
	} else {
		s.send(fmt.Sprintf("(declare-fun %s (%s) %s)", d.Name, strings.Join(ins, " "), d.Out))
	}
}

// Prelude declares all UFs and known tables at level 0.
func (s *Solver) Prelude() {
	for _, d := range s.st.UF {
		s.declareUF(d)
	}
	for _, tb := range s.st.Tables {
		if !s.tabs[tb.ID] {
			s.send(tb.Def())
			s.tabs[tb.ID] = true
		}
	}
}

// name emits definitions for t and returns the text that denotes it.
func (s *Solver) name(t *Term) string {
	switch t.Op {
	case OpConst:
		return constLit(t.Sort, t.C)
	}
	if n, ok := s.names[t]; ok {
		return n
	}
	var n string
	if t.Op == OpVar {
		n = t.Name
		s.send(fmt.Sprintf("(declare-const %s %s)", n, t.Sort))
	} else {
		// iterative post-order to avoid deep recursion on long chains
		type fr struct {
			t *Term
			i int
		}
		stack := []fr{{t, 0}}
		for len(stack) > 0 {
			f := &stack[len(stack)-1]
			if f.i < len(f.t.Args) {
				a := f.t.Args[f.i]
				f.i++
				if a.Op != OpConst {
					if _, ok := s.names[a]; !ok {
						if a.Op == OpVar {
							s.name(a)
						} else {
							stack = append(stack, fr{a, 0})
						}
					}
				}
				continue
			}
			x := f.t
			stack = stack[:len(stack)-1]
			if _, ok := s.names[x]; ok {
				continue
			}
			if x.Op == OpTable && !s.tabs[x.Tab.ID] {
				s.send(x.Tab.Def())
				s.tabs[x.Tab.ID] = true
				s.tabSc[len(s.tabSc)-1] = append(s.tabSc[len(s.tabSc)-1], x.Tab.ID)
			}
			var sb strings.Builder
			xn := "t" + strconv.Itoa(x.id)
			sb.WriteString("(define-fun ")
			sb.WriteString(xn)
			sb.WriteString(" () ")
			sb.WriteString(x.Sort.String())
			sb.WriteString(" (")
			sb.WriteString(x.head())
			for _, a := range x.Args {
				sb.WriteByte(' ')
				if a.Op == OpConst {
					sb.WriteString(constLit(a.Sort, a.C))
				} else {
					sb.WriteString(s.names[a])
				}
			}
			sb.WriteString("))")
			s.send(sb.String())
			s.names[x] = xn
			s.scopes[len(s.scopes)-1] = append(s.scopes[len(s.scopes)-1], x)
		}
		return s.names[t]
	}
	s.names[t] = n
	s.scopes[len(s.scopes)-1] = append(s.scopes[len(s.scopes)-1], t)
	return n
}

func (s *Solver) Assert(t *Term) {
	n := s.name(t)
	s.send("(assert " + n + ")")
}

// AssertRaw asserts SMT-LIB text built by the caller (used for lemmas).
func (s *Solver) AssertRaw(text string) {
	s.send("(assert " + text + ")")
}

// Name exposes name() for lemma construction.
func (s *Solver) Name(t *Term) string { return s.name(t) }

func (s *Solver) readLine() (string, error) {
	line, err := s.out.ReadString('\n')
	return strings.TrimSpace(line), err
}

// CheckAssuming runs check-sat-assuming on one Bool term (defined at the current level).
func (s *Solver) CheckAssuming(t *Term) Result {
	n := s.name(t)
	return s.check("(check-sat-assuming (" + n + "))")
}

// Check runs check-sat in the current context.
func (s *Solver) Check() Result { return s.check("(check-sat)") }

func (s *Solver) check(cmd string) Result {
	t0 := time.Now()
	if s.Dead {
		s.Queries++
		s.UnknownN++
		return Unknown
	}
	s.send(cmd)
	s.in.Flush()
	s.Queries++
	res := Unknown
	var wd *time.Timer
	if s.Kind == "cvc5" {
		proc := s.cmd.Process
		wd = time.AfterFunc(time.Duration(s.TimeoutMS)*time.Millisecond, func() { proc.Kill() })
		defer wd.Stop()
	}
	for {
		line, err := s.readLine()
		if err != nil {
			s.Dead = true
			if s.Kind == "cvc5" && time.Since(t0) >= time.Duration(s.TimeoutMS)*time.Millisecond*9/10 {
				s.Timeouts++ // killed by the watchdog: an ordinary timeout
			} else {
				s.Errors++
				s.LastErr = "solver pipe: " + err.Error()
			}
			break
		}
		if line == "" {
			continue
		}
		if line == "sat" {
			res = Sat
			break
		}
		if line == "unsat" {
			res = Unsat
			break
		}
		if line == "unknown" || line == "timeout" {
			res = Unknown
			break
		}
		if strings.HasPrefix(line, "(error") {
			s.Errors++
			s.LastErr = line
			if s.Log != nil {
				fmt.Fprintln(s.Log, "; <- "+line)
			}
			continue
		}
		// other output (warnings)
		if s.Log != nil {
			fmt.Fprintln(s.Log, "; <- "+line)
		}
	}
	if s.Log != nil {
		fmt.Fprintln(s.Log, "; <- "+res.String())
	}
	s.Time += time.Since(t0)
	if s.AfterFlush {
		s.FlushTime += time.Since(t0)
		s.FlushN++
		s.AfterFlush = false
	}
	switch res {
	case Sat:
		s.SatN++
	case Unsat:
		s.UnsatN++
	default:
		s.UnknownN++
	}
	return res
}

// readSexp reads one balanced s-expression from the solver.
func (s *Solver) readSexp() (string, error) {
	var sb strings.Builder
	depth := 0
	started := false
	inStr := false
	for {
		c, err := s.out.ReadByte()
		if err != nil {
			return sb.String(), err
		}
		if !started {
			if c == ' ' || c == '\n' || c == '\r' || c == '\t' {
				continue
			}
			started = true
		}
		sb.WriteByte(c)
		if inStr {
			if c == '"' {
				inStr = false
			}
			continue
		}
		switch c {
		case '"':
			inStr = true
		case '(':
			depth++
		case ')':
			depth--
			if depth == 0 {
				return sb.String(), nil
			}
		case '\n':
			if depth == 0 {
				return strings.TrimSpace(sb.String()), nil
			}
		}
	}
}

// Values fetches the model values of the given variables (after a sat answer).
func (s *Solver) Values(vars []*Term) (Model, error) {
	m := Model{}
	if len(vars) == 0 {
		return m, nil
	}
	t0 := time.Now()
	defer func() { s.ValTime += time.Since(t0) }()
	var sb strings.Builder
	sb.WriteString("(get-value (")
	for _, v := range vars {
		sb.WriteString(s.name(v))
		sb.WriteByte(' ')
	}
	sb.WriteString("))")
	s.send(sb.String())
	s.in.Flush()
	text, err := s.readSexp()
	if err != nil {
		return nil, err
	}
	if strings.HasPrefix(text, "(error") {
		s.Errors++
		s.LastErr = text
		return nil, fmt.Errorf("get-value: %s", text)
	}
	toks := tokenize(text)
	// ((name value) (name value) ...)
	pos := 1
	for pos < len(toks) && toks[pos] == "(" {
		pos++
		name := toks[pos]
		pos++
		var v uint64
		v, pos, err = parseValue(toks, pos)
		if err != nil {
			return nil, fmt.Errorf("get-value parse: %v in %q", err, text)
		}
		if toks[pos] != ")" {
			return nil, fmt.Errorf("get-value parse: expected ) in %q", text)
		}
		pos++
		m[name] = v
	}
	return m, nil
}

func tokenize(s string) []string {
	var out []string
	i := 0
	for i < len(s) {
		c := s[i]
		switch {
		case c == '(' || c == ')':
			out = append(out, string(c))
			i++
		case c == ' ' || c == '\n' || c == '\t' || c == '\r':
			i++
		default:
			j := i
			for j < len(s) && !strings.ContainsRune("() \n\t\r", rune(s[j])) {
				j++
			}
			out = append(out, s[i:j])
			i = j
		}
	}
	return out
}

func parseBits(tok string) (uint64, int, error) {
	if strings.HasPrefix(tok, "#x") {
		v, err := strconv.ParseUint(tok[2:], 16, 64)
		return v, 4 * (len(tok) - 2), err
	}
	if strings.HasPrefix(tok, "#b") {
		v, err := strconv.ParseUint(tok[2:], 2, 64)
		return v, len(tok) - 2, err
	}
	return 0, 0, fmt.Errorf("bad bits %q", tok)
}

func parseValue(toks []string, pos int) (uint64, int, error) {
	t := toks[pos]
	switch {
	case t == "true":
		return 1, pos + 1, nil
	case t == "false":
		return 0, pos + 1, nil
	case strings.HasPrefix(t, "#"):
		v, _, err := parseBits(t)
		return v, pos + 1, err
	case t == "(":
		// (fp s e m) | (_ bvN w) | (_ +zero e s) | (_ NaN e s) ...
		if toks[pos+1] == "fp" {
			sg, _, e1 := parseBits(toks[pos+2])
			ex, ew, e2 := parseBits(toks[pos+3])
			mn, mw, e3 := parseBits(toks[pos+4])
			if e1 != nil || e2 != nil || e3 != nil {
				return 0, pos, fmt.Errorf("bad fp literal")
			}
			v := sg<<uint(ew+mw) | ex<<uint(mw) | mn
			return v, pos + 6, nil
		}
		if toks[pos+1] == "_" {
			k := toks[pos+2]
			if strings.HasPrefix(k, "bv") {
				v, err := strconv.ParseUint(k[2:], 10, 64)
				return v, pos + 5, err
			}
			eb, _ := strconv.Atoi(toks[pos+3])
			sb, _ := strconv.Atoi(toks[pos+4])
			mw := sb - 1
			var v uint64
			switch k {
			case "+zero":
				v = 0
			case "-zero":
				v = 1 << uint(eb+mw)
			case "+oo":
				v = mask(eb) << uint(mw)
			case "-oo":
				v = 1<<uint(eb+mw) | mask(eb)<<uint(mw)
			case "NaN":
				v = mask(eb)<<uint(mw) | 1<<uint(mw-1)
			default:
				return 0, pos, fmt.Errorf("bad value %q", k)
			}
			return v, pos + 6, nil
		}
	}
	return 0, pos, fmt.Errorf("bad value token %q", t)
}

// OneShot decides the conjunction of terms with a fresh, non-incremental solver process
// (cvc5 is much faster on floating-point queries outside incremental mode).
func OneShot(kind string, st *Store, terms []*Term, vars []*Term, timeoutMS int) (Result, Model, error) {
	var buf bytes.Buffer
	e := &Solver{Kind: kind, st: st, names: map[*Term]string{}, tabs: map[int]bool{}, ufs: map[string]bool{}}
	e.in = bufio.NewWriter(&buf)
	e.scopes = [][]*Term{nil}
	e.tabSc = [][]int{nil}
	e.send("(set-logic ALL)")
	e.send("(set-option :produce-models true)")
	needUF := false
	for _, t := range terms {
		if hasUF(t, map[*Term]bool{}) {
			needUF = true
		}
	}
	if needUF {
		e.Prelude()
	}
	for _, t := range terms {
		e.Assert(t)
	}
	e.send("(check-sat)")
	if len(vars) > 0 {
		var sb strings.Builder
		sb.WriteString("(get-value (")
		for _, v := range vars {
			sb.WriteString(e.name(v))
			sb.WriteByte(' ')
		}
		sb.WriteString("))")
		e.send(sb.String())
	}
	e.in.Flush()
	var cmd *exec.Cmd
	ctx, cancel := context.WithTimeout(context.Background(), time.Duration(timeoutMS)*time.Millisecond)
	defer cancel()
	switch kind {
	case "cvc5":
		cmd = exec.CommandContext(ctx, "cvc5", "--produce-models", "--lang=smt2")
	default:
		cmd = exec.CommandContext(ctx, kind, "-in", "-smt2")
	}
	cmd.Stdin = &buf
	out, err := cmd.Output()
	text := string(out)
	lines := strings.SplitN(strings.TrimSpace(text), "\n", 2)
	if len(lines) == 0 || ctx.Err() != nil {
		return Unknown, nil, nil
	}
	switch strings.TrimSpace(lines[0]) {
	case "unsat":
		return Unsat, nil, nil
	case "sat":
		md := Model{}
		if len(vars) > 0 && len(lines) > 1 {
			toks := tokenize(lines[1])
			pos := 1
			for pos < len(toks) && toks[pos] == "(" {
				pos++
				name := toks[pos]
				pos++
				var v uint64
				var perr error
				v, pos, perr = parseValue(toks, pos)
				if perr != nil {
					return Unknown, nil, perr
				}
				pos++
				md[name] = v
			}
		}
		return Sat, md, nil
	case "unknown", "timeout":
		return Unknown, nil, nil
	}
	if err != nil {
		return Unknown, nil, fmt.Errorf("one-shot solver: %v: %s", err, firstLine(text))
	}
	return Unknown, nil, fmt.Errorf("one-shot solver said: %s", firstLine(text))
}

func firstLine(s string) string {
	if i := strings.IndexByte(s, '\n'); i >= 0 {
		return s[:i]
	}
	return s
}

func hasUF(t *Term, seen map[*Term]bool) bool {
	if t.Op == OpConst || t.Op == OpVar || seen[t] {
		return false
	}
	seen[t] = true
	if t.Op == OpUF {
		return true
	}
	for _, a := range t.Args {
		if hasUF(a, seen) {
			return true
		}
	}
	return false
}

// rawCheck runs one SMT-LIB script (ending in check-sat) in a fresh solver process.
func rawCheck(kind, script string, timeoutMS int) Result {
	ctx, cancel := context.WithTimeout(context.Background(), time.Duration(timeoutMS)*time.Millisecond)
	defer cancel()
	cmd := exec.CommandContext(ctx, kind, "-in", "-smt2")
	cmd.Stdin = strings.NewReader(script)
	out, _ := cmd.Output()
	for _, l := range strings.Split(string(out), "\n") {
		switch strings.TrimSpace(l) {
		case "sat":
			return Sat
		case "unsat":
			return Unsat
		}
	}
	return Unknown
}
