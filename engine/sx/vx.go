package sx

import (
	"fmt"
	"sync"
	"unicode"
	"go/types"
	"regexp"
	"regexp/syntax"

	"golang.org/x/tools/go/ssa"
)

// Event is one synchronisation-relevant action of the recorded run (for the race encoder).
type Event struct {
	G    int    // goroutine id
	Kind string // fork, begin, end, lock, unlock, rlock, runlock, wg-add, wg-done, wg-wait, rd, wr
	Obj  string // mutex / cell identity
	Arg  int    // child goroutine for fork
	Site string
	P    *value // memory cell (rd/wr)
	M    *Map   // map object (rd/wr)
}

func (m *Machine) syncEvent(kind string, p *value) {
	if m.RecordEvents {
		m.events = append(m.events, Event{G: m.curG, Kind: kind, Obj: fmt.Sprintf("%p", p), Site: m.site()})
	}
}

func (m *Machine) site() string {
	if n := len(m.callStack); n > 0 {
		return m.callStack[n-1].String()
	}
	return ""
}

func (m *Machine) lockEvent(kind string, p *value) {
	m.syncEvent(kind, p)
	switch kind {
	case "lock":
		if m.locks[p] != 0 {
			m.incomplete("Lock would block in the run-to-completion goroutine model")
		}
		m.locks[p] = -1
	case "unlock":
		if m.locks[p] != -1 {
			m.goPanic("sync: unlock of unlocked mutex")
		}
		m.locks[p] = 0
	case "rlock":
		if m.locks[p] < 0 {
			m.incomplete("RLock would block in the run-to-completion goroutine model")
		}
		m.locks[p]++
	case "runlock":
		if m.locks[p] <= 0 {
			m.goPanic("sync: RUnlock of unlocked RWMutex")
		}
		m.locks[p]--
	}
}

// spawn runs a goroutine to completion at the go statement (deterministic
// baton passing); fork/begin/end events are recorded for the race encoder.
func (m *Machine) spawn(fr *frame, fn value, args []value) {
	child := m.nextG
	m.nextG++
	parent := m.curG
	if m.RecordEvents {
		m.events = append(m.events, Event{G: parent, Kind: "fork", Arg: child, Site: m.site()})
		m.events = append(m.events, Event{G: child, Kind: "begin"})
	}
	m.curG = child
	sp, d := len(m.callStack), m.depth
	func() {
		defer func() {
			if r := recover(); r != nil {
				if tp, ok := r.(targetPanic); ok {
					// an unrecovered panic in a goroutine kills the process
					tp.desc = "in goroutine: " + tp.desc
					panic(tp)
				}
				panic(r)
			}
		}()
		m.callFrom(nil, fn, args)
	}()
	m.callStack = m.callStack[:sp]
	m.depth = d
	if m.RecordEvents {
		m.events = append(m.events, Event{G: child, Kind: "end"})
	}
	m.curG = parent
}

// memEvent records a shared-memory access (only while event recording is on).
func (m *Machine) memEvent(kind string, p *value) {
	if m.RecordEvents && m.trackRoots != nil {
		m.events = append(m.events, Event{G: m.curG, Kind: kind, Obj: fmt.Sprintf("%p", p), Site: m.site(), P: p})
	}
}

// ---------- vx vocabulary ----------

func (m *Machine) newInput(kind string, so Sort) *Term {
	name := fmt.Sprintf("vx%d", len(m.vxLog))
	t := m.st.Var(name, so)
	m.vxLog = append(m.vxLog, vxEntry{name, kind, t})
	return t
}

func (m *Machine) callVx(caller *frame, fn *ssa.Function, args []value) (value, bool) {
	st := m.st
	switch fn.Name() {
	case "vxByte":
		return m.newInput("byte", S8), true
	case "vxBool":
		return m.newInput("bool", SBool), true
	case "vxRune":
		return m.newInput("rune", S32), true
	case "vxInt64":
		return m.newInput("int", S64), true
	case "vxInt":
		lo, hi := args[0].(*Term), args[1].(*Term)
		v := m.newInput("int", S64)
		m.assume(st.And(st.Bin(OpSLE, lo, v), st.Bin(OpSLE, v, hi)))
		return v, true
	case "vxFloat64":
		lo, hi := args[0].(*Term), args[1].(*Term)
		v := m.newInput("float64", SF64)
		if lo.Op == OpConst && hi.Op == OpConst {
			m.fvarSort[v.Name] = true
			m.fbounds[v.Name] = frng{fval(SF64, lo.C), fval(SF64, hi.C), true}
		}
		m.assume(st.And(st.FBin(OpFLE, lo, v), st.FBin(OpFLE, v, hi)))
		return v, true
	case "vxBytes":
		n := int(m.concretize(args[0].(*Term)))
		out := make([]value, n)
		for i := range out {
			out[i] = m.newInput("byte", S8)
		}
		return out, true
	case "vxString":
		n := int(m.concretize(args[0].(*Term)))
		bs := make([]*Term, n)
		for i := range bs {
			bs[i] = m.newInput("byte", S8)
		}
		return mkStr(bs), true
	case "vxChoice":
		n := int(m.concretize(args[0].(*Term)))
		v := m.newInput("int", S64)
		return st.BV(64, m.chooseFresh(v, n)), true
	case "vxConcrete":
		return st.BV(64, m.concretize(args[0].(*Term))), true
	case "vxConcreteByte":
		return st.BV(8, m.concretize(args[0].(*Term))), true
	case "vxAssume":
		m.assume(args[0].(*Term))
		return nil, true
	case "vxAssert":
		label, _ := args[0].(string)
		m.assert(label, args[1].(*Term))
		return nil, true
	case "vxCover":
		label, _ := args[0].(string)
		m.covers[label] = true
		return nil, true
	case "vxFreeze":
		m.freeze(args[0].([]value))
		return nil, true
	case "vxThaw":
		m.freezeOn = false
		return nil, true
	case "vxMapOrder":
		m.mapOrder = int(m.concretize(args[0].(*Term)))
		return nil, true
	case "vxStub":
		name, _ := args[0].(string)
		it := args[1].(iface)
		m.stubs[name] = it.v
		return nil, true
	case "vxUnstub":
		name, _ := args[0].(string)
		delete(m.stubs, name)
		return nil, true
	case "vxPanics":
		// vxPanics(f func()) bool: run f, report whether it panicked (the panic is swallowed)
		panicked := false
		sp, d := len(m.callStack), m.depth
		func() {
			defer func() {
				if r := recover(); r != nil {
					if _, ok := r.(targetPanic); ok {
						panicked = true
						return
					}
					panic(r)
				}
			}()
			m.callFrom(caller, args[0], nil)
		}()
		m.callStack = m.callStack[:sp]
		m.depth = d
		return st.Bool(panicked), true
	case "vxIsSymbolic":
		return st.Bool(!isConcrete(args[0].(iface).v)), true
	case "vxEvents":
		m.RecordEvents = m.concretize(args[0].(*Term)) != 0
		return nil, true
	case "vxRaceFree":
		// decides, over the recorded event trace, whether two conflicting accesses can be adjacent
		race := m.predictRace()
		if race != "" {
			m.recordViolation("data-race", race, m.model)
			return st.ff, true
		}
		return st.tt, true
	case "vxTrack":
		m.track(args[0].([]value))
		return nil, true
	case "vxEmit":
		label, _ := args[0].(string)
		m.Emitted = append(m.Emitted, label+"="+m.describeStr(args[1]))
		return nil, true
	case "vxNative":
		return st.ff, true
	case "vxOr":
		return st.Or(args[0].(*Term), args[1].(*Term)), true
	case "vxAnd":
		return st.And(args[0].(*Term), args[1].(*Term)), true
	case "vxImplies":
		return st.Or(st.Not(args[0].(*Term)), args[1].(*Term)), true
	case "vxIte", "vxIteByte", "vxIteInt":
		c := args[0].(*Term)
		return st.Ite(c, args[1].(*Term), args[2].(*Term)), true
	}
	return nil, false
}

// freeze marks every cell reachable from the roots as shared state that must not be written.
func (m *Machine) freeze(roots []value) {
	if m.frozen == nil {
		m.frozen = map[*value]bool{}
		m.frozenM = map[*Map]bool{}
	}
	seenSl := map[*value]int{}
	var walk func(v value)
	walkCell := func(p *value) {
		if p == nil || m.frozen[p] {
			return
		}
		m.frozen[p] = true
		walk(*p)
	}
	walk = func(v value) {
		switch v := v.(type) {
		case *value:
			walkCell(v)
		case []value:
			full := v[:cap(v)]
			if len(full) == 0 {
				return
			}
			if seenSl[&full[0]] >= len(full) {
				return
			}
			seenSl[&full[0]] = len(full)
			for i := range full {
				p := &full[i]
				if !m.frozen[p] {
					m.frozen[p] = true
					walk(*p)
				}
			}
		case array:
			for i := range v {
				p := &v[i]
				if !m.frozen[p] {
					m.frozen[p] = true
					walk(*p)
				}
			}
		case structure:
			for i := range v {
				p := &v[i]
				if !m.frozen[p] {
					m.frozen[p] = true
					walk(*p)
				}
			}
		case iface:
			if v.t != nil {
				walk(v.v)
			}
		case *Map:
			if v == nil || m.frozenM[v] {
				return
			}
			m.frozenM[v] = true
			for i := range v.keys {
				if v.live[i] {
					walk(v.keys[i])
					walk(v.vals[i])
				}
			}
		case *closure:
			for _, e := range v.Env {
				walk(e)
			}
		case tuple:
			for _, e := range v {
				walk(e)
			}
		}
	}
	for _, r := range roots {
		walk(r)
	}
	m.freezeOn = true
}

func (m *Machine) track(roots []value) {
	m.trackRoots = append(m.trackRoots, roots...)
	m.retrack()
}

// retrack recomputes the set of cells and maps reachable from the tracked roots (objects
// allocated after vxTrack, e.g. by a concurrent AddValue, belong to the shared state too).
func (m *Machine) retrack() {
	save, saveM, on := m.frozen, m.frozenM, m.freezeOn
	m.frozen, m.frozenM = nil, nil
	m.freeze(m.trackRoots)
	if m.trackCell == nil {
		m.trackCell = map[*value]bool{}
		m.trackMap = map[*Map]bool{}
	}
	for k := range m.frozen {
		m.trackCell[k] = true
	}
	for k := range m.frozenM {
		m.trackMap[k] = true
	}
	m.frozen, m.frozenM, m.freezeOn = save, saveM, on
}

// ---------- regexp on symbolic strings ----------

var (
	minLenMu    sync.Mutex
	minLenCache = map[string]int{}
)

func regexMinLen(re *regexp.Regexp) int {
	minLenMu.Lock()
	defer minLenMu.Unlock()
	if n, ok := minLenCache[re.String()]; ok {
		return n
	}
	parsed, err := syntax.Parse(re.String(), syntax.Perl)
	n := 0
	if err == nil {
		n = minLen(parsed.Simplify())
	}
	minLenCache[re.String()] = n
	return n
}

func minLen(r *syntax.Regexp) int {
	switch r.Op {
	case syntax.OpLiteral:
		n := 0
		for _, c := range r.Rune {
			_ = c
			n++ // at least one byte per rune
		}
		return n
	case syntax.OpCharClass, syntax.OpAnyCharNotNL, syntax.OpAnyChar:
		return 1
	case syntax.OpCapture, syntax.OpPlus:
		return minLen(r.Sub[0])
	case syntax.OpRepeat:
		return r.Min * minLen(r.Sub[0])
	case syntax.OpConcat:
		n := 0
		for _, s := range r.Sub {
			n += minLen(s)
		}
		return n
	case syntax.OpAlternate:
		best := -1
		for _, s := range r.Sub {
			if l := minLen(s); best < 0 || l < best {
				best = l
			}
		}
		if best < 0 {
			return 0
		}
		return best
	}
	return 0
}

// regexMatchSym decides re.MatchString(s) for a string with symbolic bytes:
// by the minimum-length rule, else by simulating the compiled program of the
// real pattern over the byte terms (ASCII-only paths; others are outside the bound).
func (m *Machine) regexMatchSym(re *regexp.Regexp, s *SymStr) *Term {
	if len(s.b) < regexMinLen(re) {
		m.Intrinsics["regexp-minlen-rule"]++
		return m.st.ff
	}
	// decode the string into runes with the real decoder (forks on UTF-8 structure), then
	// simulate the compiled program of the real pattern over the rune terms
	var runes []*Term
	var rest value = s
	for strLen(rest) > 0 {
		r, n := m.decodeRune(rest)
		runes = append(runes, r)
		rest = m.strSlice(rest, n, strLen(rest))
	}
	m.Intrinsics["regexp-nfa-encoding"]++
	return m.regexNFA(re, runes)
}

// regexNFA simulates the Thompson program of re on n rune terms (32-bit) and
// returns the Bool term "some prefix-unanchored match exists".
func (m *Machine) regexNFA(re *regexp.Regexp, bs []*Term) *Term {
	parsed, err := syntax.Parse(re.String(), syntax.Perl)
	if err != nil {
		m.unsupported("regexp parse: " + err.Error())
	}
	prog, err := syntax.Compile(parsed.Simplify())
	if err != nil {
		m.unsupported("regexp compile: " + err.Error())
	}
	st := m.st
	n := len(bs)
	np := len(prog.Inst)
	// reach[i][pc]: pc is reachable with i bytes consumed (after epsilon closure)
	matched := st.ff
	cur := make([]*Term, np)
	for i := range cur {
		cur[i] = st.ff
	}
	var addClosure func(set []*Term, pc int, cond *Term, pos int, depth int)
	addClosure = func(set []*Term, pc int, cond *Term, pos int, depth int) {
		if cond.IsFalse() || depth > np {
			return
		}
		in := &prog.Inst[pc]
		switch in.Op {
		case syntax.InstAlt, syntax.InstAltMatch:
			addClosure(set, int(in.Out), cond, pos, depth+1)
			addClosure(set, int(in.Arg), cond, pos, depth+1)
		case syntax.InstCapture, syntax.InstNop:
			addClosure(set, int(in.Out), cond, pos, depth+1)
		case syntax.InstEmptyWidth:
			c := cond
			op := syntax.EmptyOp(in.Arg)
			if op&syntax.EmptyBeginText != 0 && pos != 0 {
				c = st.ff
			}
			if op&syntax.EmptyEndText != 0 && pos != n {
				c = st.ff
			}
			if op&syntax.EmptyBeginLine != 0 && pos != 0 {
				c = st.And(c, st.Eq(bs[pos-1], st.BV(32, '\n')))
			}
			if op&syntax.EmptyEndLine != 0 && pos != n {
				c = st.And(c, st.Eq(bs[pos], st.BV(32, '\n')))
			}
			if op&(syntax.EmptyWordBoundary|syntax.EmptyNoWordBoundary) != 0 {
				isW := func(i int) *Term {
					if i < 0 || i >= n {
						return st.ff
					}
					b := bs[i]
					rng := func(lo, hi byte) *Term {
						return st.And(st.Bin(OpULE, st.BV(32, uint64(lo)), b), st.Bin(OpULE, b, st.BV(32, uint64(hi))))
					}
					return st.Or(st.Or(rng('a', 'z'), rng('A', 'Z')), st.Or(rng('0', '9'), st.Eq(b, st.BV(32, '_'))))
				}
				diff := st.Not(st.Eq(isW(pos-1), isW(pos)))
				if op&syntax.EmptyWordBoundary != 0 {
					c = st.And(c, diff)
				} else {
					c = st.And(c, st.Not(diff))
				}
			}
			addClosure(set, int(in.Out), c, pos, depth+1)
		case syntax.InstMatch:
			matched = st.Or(matched, cond)
		case syntax.InstFail:
		default:
			set[pc] = st.Or(set[pc], cond)
		}
	}
	step := func(in *syntax.Inst, r *Term) *Term {
		switch in.Op {
		case syntax.InstRuneAny:
			return st.tt
		case syntax.InstRuneAnyNotNL:
			return st.Not(st.Eq(r, st.BV(32, '\n')))
		case syntax.InstRune1:
			c := st.Eq(r, st.BV(32, uint64(in.Rune[0])))
			if syntax.Flags(in.Arg)&syntax.FoldCase != 0 {
				for f := simpleFold(in.Rune[0]); f != in.Rune[0]; f = simpleFold(f) {
					c = st.Or(c, st.Eq(r, st.BV(32, uint64(f))))
				}
			}
			return c
		case syntax.InstRune:
			c := st.ff
			fold := syntax.Flags(in.Arg)&syntax.FoldCase != 0
			if len(in.Rune) == 1 {
				c = st.Eq(r, st.BV(32, uint64(in.Rune[0])))
				if fold {
					for f := simpleFold(in.Rune[0]); f != in.Rune[0]; f = simpleFold(f) {
						c = st.Or(c, st.Eq(r, st.BV(32, uint64(f))))
					}
				}
				return c
			}
			for i := 0; i+1 < len(in.Rune); i += 2 {
				lo, hi := in.Rune[i], in.Rune[i+1]
				c = st.Or(c, st.And(st.Bin(OpULE, st.BV(32, uint64(lo)), r), st.Bin(OpULE, r, st.BV(32, uint64(hi)))))
			}
			return c
		}
		return st.ff
	}
	for pos := 0; pos <= n; pos++ {
		// unanchored search: a fresh thread starts at every position
		addClosure(cur, prog.Start, st.tt, pos, 0)
		if pos == n {
			break
		}
		next := make([]*Term, np)
		for i := range next {
			next[i] = st.ff
		}
		for pc := 0; pc < np; pc++ {
			if cur[pc].IsFalse() {
				continue
			}
			in := &prog.Inst[pc]
			c := st.And(cur[pc], step(in, bs[pos]))
			addClosure(next, int(in.Out), c, pos+1, 0)
		}
		cur = next
	}
	return matched
}

func simpleFold(r rune) rune { return unicode.SimpleFold(r) }

var _ = types.Typ

func (m *Machine) describeStr(v value) string {
	switch s := v.(type) {
	case string:
		return s
	case *SymStr:
		bs := make([]byte, len(s.b))
		for i, b := range s.b {
			bs[i] = byte(m.evalT(b))
		}
		return string(bs)
	}
	return fmt.Sprint(v)
}

// chooseFresh forks over the values 0..n-1 of a fresh, otherwise unconstrained input
// variable.  Every value extends the current model, so no solver call is needed.
func (m *Machine) chooseFresh(v *Term, n int) uint64 {
	if n <= 0 {
		m.abort("infeasible", "choice over an empty range")
	}
	k := len(m.decs)
	var val uint64
	if k < len(m.prefix) {
		val = m.prefix[k].Val
	} else {
		for j := 1; j < n; j++ {
			pre := make([]Dec, k+1)
			copy(pre, m.decs)
			pre[k] = Dec{Dir: true, Val: uint64(j), Conc: true}
			md := make(Model, len(m.model)+1)
			for kk, vv := range m.model {
				md[kk] = vv
			}
			md[v.Name] = uint64(j)
			m.Push(Item{pre, md})
		}
		if m.model[v.Name] != 0 {
			md := make(Model, len(m.model))
			for kk, vv := range m.model {
				md[kk] = vv
			}
			md[v.Name] = 0
			m.setModel(md)
		}
	}
	m.decs = append(m.decs, Dec{Dir: true, Val: val, Conc: true})
	m.Stats.Branches++
	m.addPC(m.st.Eq(v, m.st.Const(v.Sort, val)))
	return val
}
