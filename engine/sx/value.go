package sx

import (
	"fmt"
	"go/constant"
	"go/types"
	"strings"

	"golang.org/x/tools/go/ssa"
)

// Value representation (boxed in the empty interface):
//
//   *Term               every scalar: bool, all integer kinds, floats (constants are OpConst terms)
//   string / *SymStr    strings (length always concrete)
//   *value / *idxPtr    pointers ((*value)(nil) is the nil pointer)
//   []value             slices
//   array, structure    aggregates (copied on load/store)
//   tuple               multi-value results
//   iface               interface values
//   *Map                maps
//   *ssa.Function, *ssa.Builtin, *closure   functions
//   *Chan               channels
//   *native             opaque host objects (compiled regexps, ...)
type value interface{}

type tuple []value
type array []value
type structure []value

type iface struct {
	t types.Type
	v value
}

type closure struct {
	Fn  *ssa.Function
	Env []value
}

type native struct {
	v interface{}
}

// SymStr is a string with at least one symbolic byte.
type SymStr struct {
	b []*Term
}

// idxPtr is &base[idx]<path...> for a symbolic, in-bounds idx.
type idxPtr struct {
	base []value
	idx  *Term // 64-bit
	path []int // field / constant element selections applied after indexing
}

type bad struct{}

// ---------- type helpers ----------

func deref(t types.Type) types.Type {
	if p, ok := t.Underlying().(*types.Pointer); ok {
		return p.Elem()
	}
	panic(fmt.Sprintf("deref: not a pointer: %v", t))
}

func (m *Machine) sortOf(t types.Type) (Sort, bool) {
	switch b := t.Underlying().(type) {
	case *types.Basic:
		switch b.Kind() {
		case types.Bool, types.UntypedBool:
			return SBool, false
		case types.Int8:
			return S8, true
		case types.Int16:
			return S16, true
		case types.Int32, types.UntypedRune:
			return S32, true
		case types.Int, types.Int64, types.UntypedInt:
			return S64, true
		case types.Uint8:
			return S8, false
		case types.Uint16:
			return S16, false
		case types.Uint32:
			return S32, false
		case types.Uint, types.Uint64, types.Uintptr:
			return S64, false
		case types.Float32:
			return SF32, true
		case types.Float64, types.UntypedFloat:
			return SF64, true
		}
	}
	return Sort{}, false
}

func isString(t types.Type) bool {
	b, ok := t.Underlying().(*types.Basic)
	return ok && b.Info()&types.IsString != 0
}

func (m *Machine) zero(t types.Type) value {
	switch t := t.(type) {
	case *types.Basic:
		if t.Kind() == types.UnsafePointer {
			return (*value)(nil)
		}
		if t.Kind() == types.UntypedNil {
			panic("untyped nil has no zero value")
		}
		if t.Info()&types.IsString != 0 {
			return ""
		}
		if t.Info()&types.IsComplex != 0 {
			panic("complex numbers unsupported")
		}
		so, _ := m.sortOf(t)
		return m.st.Const(so, 0)
	case *types.Pointer:
		return (*value)(nil)
	case *types.Array:
		a := make(array, t.Len())
		for i := range a {
			a[i] = m.zero(t.Elem())
		}
		return a
	case *types.Named:
		return m.zero(t.Underlying())
	case *types.Alias:
		return m.zero(types.Unalias(t))
	case *types.Interface:
		return iface{}
	case *types.Slice:
		return []value(nil)
	case *types.Struct:
		s := make(structure, t.NumFields())
		for i := range s {
			s[i] = m.zero(t.Field(i).Type())
		}
		return s
	case *types.Tuple:
		if t.Len() == 1 {
			return m.zero(t.At(0).Type())
		}
		s := make(tuple, t.Len())
		for i := range s {
			s[i] = m.zero(t.At(i).Type())
		}
		return s
	case *types.Chan:
		return (*Chan)(nil)
	case *types.Map:
		return (*Map)(nil)
	case *types.Signature:
		return (*ssa.Function)(nil)
	}
	panic(fmt.Sprintf("zero: unexpected %T %v", t, t))
}

func (m *Machine) constValue(c *ssa.Const) value {
	if c.Value == nil {
		return m.zero(c.Type())
	}
	if t, ok := c.Type().Underlying().(*types.Basic); ok {
		switch {
		case t.Info()&types.IsBoolean != 0:
			return m.st.Bool(constant.BoolVal(c.Value))
		case t.Info()&types.IsString != 0:
			if c.Value.Kind() == constant.String {
				return constant.StringVal(c.Value)
			}
			return string(rune(c.Int64()))
		case t.Info()&types.IsInteger != 0:
			so, signed := m.sortOf(t)
			if signed {
				return m.st.BV(so.W, uint64(c.Int64()))
			}
			return m.st.BV(so.W, c.Uint64())
		case t.Info()&types.IsFloat != 0:
			so, _ := m.sortOf(t)
			if so.W == 32 {
				return m.st.F32(float32(c.Float64()))
			}
			return m.st.F64(c.Float64())
		}
	}
	panic(fmt.Sprintf("constValue: %s", c))
}

// copyVal returns a copy of v that shares no aggregate storage with it.
func copyVal(v value) value {
	switch v := v.(type) {
	case array:
		a := make(array, len(v))
		for i := range v {
			a[i] = copyVal(v[i])
		}
		return a
	case structure:
		a := make(structure, len(v))
		for i := range v {
			a[i] = copyVal(v[i])
		}
		return a
	}
	return v
}

// ---------- strings ----------

func strLen(v value) int {
	switch s := v.(type) {
	case string:
		return len(s)
	case *SymStr:
		return len(s.b)
	}
	panic(fmt.Sprintf("strLen: %T", v))
}

func (m *Machine) strByte(v value, i int) *Term {
	switch s := v.(type) {
	case string:
		return m.st.BV(8, uint64(s[i]))
	case *SymStr:
		return s.b[i]
	}
	panic(fmt.Sprintf("strByte: %T", v))
}

func (m *Machine) strBytes(v value) []*Term {
	switch s := v.(type) {
	case string:
		out := make([]*Term, len(s))
		for i := 0; i < len(s); i++ {
			out[i] = m.st.BV(8, uint64(s[i]))
		}
		return out
	case *SymStr:
		return s.b
	}
	panic(fmt.Sprintf("strBytes: %T", v))
}

// mkStr builds a string value; it is a Go string if every byte is concrete.
func mkStr(bs []*Term) value {
	for _, b := range bs {
		if b.Op != OpConst {
			cp := make([]*Term, len(bs))
			copy(cp, bs)
			return &SymStr{cp}
		}
	}
	var sb strings.Builder
	for _, b := range bs {
		sb.WriteByte(byte(b.C))
	}
	return sb.String()
}

func (m *Machine) strSlice(v value, lo, hi int) value {
	switch s := v.(type) {
	case string:
		return s[lo:hi]
	case *SymStr:
		return mkStr(s.b[lo:hi])
	}
	panic("strSlice")
}

func (m *Machine) strConcat(a, b value) value {
	if x, ok := a.(string); ok {
		if y, ok := b.(string); ok {
			return x + y
		}
	}
	ab, bb := m.strBytes(a), m.strBytes(b)
	out := make([]*Term, 0, len(ab)+len(bb))
	out = append(out, ab...)
	out = append(out, bb...)
	return mkStr(out)
}

func (m *Machine) strEq(a, b value) *Term {
	if x, ok := a.(string); ok {
		if y, ok := b.(string); ok {
			return m.st.Bool(x == y)
		}
	}
	if strLen(a) != strLen(b) {
		return m.st.ff
	}
	ab, bb := m.strBytes(a), m.strBytes(b)
	r := m.st.tt
	for i := range ab {
		r = m.st.And(r, m.st.Eq(ab[i], bb[i]))
		if r.IsFalse() {
			return r
		}
	}
	return r
}

// strLess is the lexicographic a < b as a term.
func (m *Machine) strLess(a, b value) *Term {
	if x, ok := a.(string); ok {
		if y, ok := b.(string); ok {
			return m.st.Bool(x < y)
		}
	}
	ab, bb := m.strBytes(a), m.strBytes(b)
	n := len(ab)
	if len(bb) < n {
		n = len(bb)
	}
	// result for equal common prefix
	r := m.st.Bool(len(ab) < len(bb))
	for i := n - 1; i >= 0; i-- {
		r = m.st.Ite(m.st.Bin(OpULT, ab[i], bb[i]), m.st.tt,
			m.st.Ite(m.st.Bin(OpULT, bb[i], ab[i]), m.st.ff, r))
	}
	return r
}

func isConcreteStr(v value) (string, bool) {
	s, ok := v.(string)
	return s, ok
}

// ---------- concreteness ----------

// isConcrete reports whether v contains no symbolic scalar (shallow for pointers).
func isConcrete(v value) bool {
	switch v := v.(type) {
	case *Term:
		return v.Op == OpConst
	case string:
		return true
	case *SymStr:
		return false
	case []value:
		for _, e := range v {
			if !isConcrete(e) {
				return false
			}
		}
		return true
	case array:
		for _, e := range v {
			if !isConcrete(e) {
				return false
			}
		}
		return true
	case structure:
		for _, e := range v {
			if !isConcrete(e) {
				return false
			}
		}
		return true
	case iface:
		if v.t == nil {
			return true
		}
		return isConcrete(v.v)
	case *idxPtr:
		return false
	}
	return true
}

// ---------- maps ----------

// Map is an insertion-ordered association list.  Keys may be symbolic; a
// concrete-key index accelerates the common case.
type Map struct {
	keyT    types.Type
	keys    []value
	vals    []value
	live    []bool
	n       int                 // number of live entries
	idx     map[interface{}]int // concrete hashable key -> position
	symKeys int                 // number of live entries with symbolic keys
}

func newMap(keyT types.Type) *Map {
	return &Map{keyT: keyT, idx: map[interface{}]int{}}
}

// hashKey returns a Go-comparable representation of a concrete key, if any.
func hashKey(k value) (interface{}, bool) {
	switch k := k.(type) {
	case *Term:
		if k.Op == OpConst {
			return [2]uint64{uint64(k.Sort.K)<<8 | uint64(k.Sort.W), k.C}, true
		}
		return nil, false
	case string:
		return k, true
	case *SymStr:
		return nil, false
	case *value:
		return k, true
	case *Map:
		return k, true
	case *Chan:
		return k, true
	case iface:
		if k.t == nil {
			return "<nil-iface>", true
		}
		h, ok := hashKey(k.v)
		if !ok {
			return nil, false
		}
		return struct {
			t string
			v interface{}
		}{k.t.String(), h}, true
	case structure:
		var sb strings.Builder
		for _, f := range k {
			h, ok := hashKey(f)
			if !ok {
				return nil, false
			}
			fmt.Fprintf(&sb, "%v|", h)
		}
		return "S" + sb.String(), true
	case array:
		var sb strings.Builder
		for _, f := range k {
			h, ok := hashKey(f)
			if !ok {
				return nil, false
			}
			fmt.Fprintf(&sb, "%v|", h)
		}
		return "A" + sb.String(), true
	}
	return nil, false
}

// Chan is a minimal channel model (buffer only; no blocking semantics beyond the scheduler).
type Chan struct {
	buf    []value
	cap    int
	closed bool
	elemT  types.Type
}
