package sx

import (
	"fmt"
	"go/token"
	"go/types"
	"strings"

	"golang.org/x/tools/go/ssa"
)

type deferred struct {
	fn   value
	args []value
	tail *deferred
}

type frame struct {
	m                *Machine
	caller           *frame
	fn               *ssa.Function
	block, prevBlock *ssa.BasicBlock
	env              map[ssa.Value]value
	locals           []value
	defers           *deferred
	result           value
	panicking        bool
	panic            interface{}
	sp, d            int
}

func (fr *frame) get(key ssa.Value) value {
	switch key := key.(type) {
	case nil:
		return nil
	case *ssa.Function, *ssa.Builtin:
		return key
	case *ssa.Const:
		return fr.m.constValue(key)
	case *ssa.Global:
		if r, ok := fr.m.globals[key]; ok {
			return r
		}
	}
	if r, ok := fr.env[key]; ok {
		return r
	}
	panic(fmt.Sprintf("get: no value for %T: %v in %v", key, key.Name(), fr.fn))
}

// goPanic raises a Go run-time panic in the program under test.
func (m *Machine) goPanic(msg string) {
	panic(targetPanic{v: iface{t: m.runtimeErrorType(), v: msg}, desc: msg, stack: m.stackString()})
}

func (m *Machine) runtimeErrorType() types.Type {
	if m.rtErrType == nil {
		if p := m.prog.ImportedPackage("runtime"); p != nil {
			if t := p.Type("errorString"); t != nil {
				m.rtErrType = t.Object().Type()
			}
		}
		if m.rtErrType == nil {
			m.rtErrType = types.Typ[types.String]
		}
	}
	return m.rtErrType
}

func (fr *frame) runDefer(d *deferred) {
	var ok bool
	defer func() {
		if !ok {
			r := recover()
			if _, isEnd := r.(pathEnd); isEnd {
				panic(r)
			}
			if _, isT := r.(targetPanic); !isT {
				panic(r)
			}
			fr.panicking = true
			fr.panic = r
		}
	}()
	fr.m.callFrom(fr, d.fn, d.args)
	ok = true
}

func (fr *frame) runDefers() {
	for d := fr.defers; d != nil; d = d.tail {
		fr.runDefer(d)
	}
	fr.defers = nil
	if fr.panicking {
		panic(fr.panic)
	}
}

func (m *Machine) lookupMethod(typ types.Type, meth *types.Func) *ssa.Function {
	return m.prog.LookupMethod(typ, meth.Pkg(), meth.Name())
}

func (m *Machine) prepareCall(fr *frame, call *ssa.CallCommon) (fn value, args []value) {
	v := fr.get(call.Value)
	if call.Method == nil {
		fn = v
	} else {
		recv := v.(iface)
		if recv.t == nil {
			m.goPanic("runtime error: invalid memory address or nil pointer dereference (method call on nil interface)")
		}
		if nv, ok := recv.v.(*native); ok {
			// method on an opaque host object
			fn = &nativeMethod{recv: nv, name: call.Method.Name(), sig: call.Method.Type().(*types.Signature)}
			for _, arg := range call.Args {
				args = append(args, fr.get(arg))
			}
			return
		}
		f := m.lookupMethod(recv.t, call.Method)
		if f == nil {
			panic(fmt.Sprintf("method set for dynamic type %v does not contain %s", recv.t, call.Method))
		}
		fn = f
		args = append(args, recv.v)
	}
	for _, arg := range call.Args {
		args = append(args, fr.get(arg))
	}
	return
}

type nativeMethod struct {
	recv *native
	name string
	sig  *types.Signature
}

func (m *Machine) call(fn value, args []value) value {
	return m.callFrom(nil, fn, args)
}

func (m *Machine) callFrom(caller *frame, fn value, args []value) value {
	switch fn := fn.(type) {
	case *ssa.Function:
		if fn == nil {
			m.goPanic("runtime error: invalid memory address or nil pointer dereference (call of nil func)")
		}
		return m.callSSA(caller, fn, args, nil)
	case *closure:
		return m.callSSA(caller, fn.Fn, args, fn.Env)
	case *ssa.Builtin:
		return m.callBuiltin(caller, fn, args)
	case *nativeMethod:
		return m.callNativeMethod(fn, args)
	case *hostFunc:
		return fn.fn(m, args)
	}
	panic(fmt.Sprintf("cannot call %T", fn))
}

func (m *Machine) callSSA(caller *frame, fn *ssa.Function, args []value, env []value) value {
	name := fn.String()
	if fn.Parent() == nil {
		if st, ok := m.stubs[name]; ok {
			return m.callFrom(caller, st, args)
		}
		if strings.HasPrefix(fn.Name(), "vx") && fn.Signature.Recv() == nil {
			if r, ok := m.callVx(caller, fn, args); ok {
				return r
			}
		}
		if in := intrinsics[name]; in != nil {
			if r, ok := in(m, caller, fn, args); ok {
				m.Intrinsics[name]++
				return r
			}
		}
		if fn.Name() == "init" && fn.Pkg != nil && fn.Synthetic != "" {
			if !m.wantInit(fn.Pkg) {
				return nil
			}
		}
	}
	if fn.Blocks == nil {
		m.unsupported("no body for " + name)
	}
	if fn.TypeParams().Len() > 0 && len(fn.TypeArgs()) == 0 {
		m.unsupported("uninstantiated generic " + name)
	}
	m.depth++
	if m.depth > m.MaxDepth {
		m.incomplete("call depth limit")
	}
	m.FuncsHit[name]++
	m.callStack = append(m.callStack, fn)
	fr := &frame{m: m, caller: caller, fn: fn, sp: len(m.callStack), d: m.depth}
	fr.env = make(map[ssa.Value]value, 16)
	fr.block = fn.Blocks[0]
	fr.locals = make([]value, len(fn.Locals))
	for i, l := range fn.Locals {
		fr.locals[i] = m.zero(deref(l.Type()))
		fr.env[l] = &fr.locals[i]
	}
	for i, p := range fn.Params {
		fr.env[p] = args[i]
	}
	for i, fv := range fn.FreeVars {
		fr.env[fv] = env[i]
	}
	for fr.block != nil {
		fr.run()
	}
	m.callStack = m.callStack[:len(m.callStack)-1]
	m.depth--
	return fr.result
}

func (fr *frame) run() {
	defer func() {
		if fr.block == nil {
			return // normal return
		}
		r := recover()
		if _, isT := r.(targetPanic); !isT {
			panic(r) // pathEnd or engine bug: propagate
		}
		// restore call stack depth bookkeeping for frames unwound by the panic
		m := fr.m
		m.callStack = m.callStack[:fr.sp]
		m.depth = fr.d
		fr.panicking = true
		fr.panic = r
		fr.runDefers()
		fr.block = fr.fn.Recover
		if fr.block == nil {
			// recovered, function without named results: return zero values
			fr.result = fr.m.zero(fr.fn.Signature.Results())
			if fr.fn.Signature.Results().Len() == 0 {
				fr.result = nil
			}
		}
	}()
	m := fr.m
	for {
		// phis
		instrs := fr.block.Instrs
		first := 0
		for first < len(instrs) {
			if _, ok := instrs[first].(*ssa.Phi); !ok {
				break
			}
			first++
		}
		if first > 0 {
			pred := -1
			for i, p := range fr.block.Preds {
				if p == fr.prevBlock {
					pred = i
					break
				}
			}
			tmp := make([]value, first)
			for i := 0; i < first; i++ {
				tmp[i] = fr.get(instrs[i].(*ssa.Phi).Edges[pred])
			}
			for i := 0; i < first; i++ {
				fr.env[instrs[i].(*ssa.Phi)] = tmp[i]
			}
		}
		jumped := false
		for _, instr := range instrs[first:] {
			m.steps++
			if m.steps > m.MaxSteps {
				if m.HangIsViolation {
					m.violation("hang", fmt.Sprintf("no termination within %d SSA instructions", m.MaxSteps))
				}
				m.incomplete("step budget exhausted (unwinding failure)")
			}
			if m.Trace {
				if v, ok := instr.(ssa.Value); ok {
					fmt.Printf("  %s: %s = %s\n", fr.fn.Name(), v.Name(), instr)
				} else {
					fmt.Printf("  %s: %s\n", fr.fn.Name(), instr)
				}
			}
			switch fr.visit(instr) {
			case kReturn:
				return
			case kJump:
				jumped = true
			}
			if jumped {
				break
			}
		}
	}
}

type continuation int

const (
	kNext continuation = iota
	kReturn
	kJump
)

func (fr *frame) visit(instr ssa.Instruction) continuation {
	m := fr.m
	switch instr := instr.(type) {
	case *ssa.DebugRef:

	case *ssa.UnOp:
		fr.env[instr] = m.unop(instr, fr.get(instr.X))

	case *ssa.BinOp:
		fr.env[instr] = m.binop(instr.Op, instr.X.Type(), fr.get(instr.X), fr.get(instr.Y))

	case *ssa.Call:
		fn, args := m.prepareCall(fr, &instr.Call)
		fr.env[instr] = m.callFrom(fr, fn, args)

	case *ssa.ChangeInterface:
		fr.env[instr] = fr.get(instr.X)

	case *ssa.ChangeType:
		fr.env[instr] = fr.get(instr.X)

	case *ssa.Convert:
		fr.env[instr] = m.conv(instr.Type(), instr.X.Type(), fr.get(instr.X))

	case *ssa.SliceToArrayPointer:
		m.unsupported("SliceToArrayPointer")

	case *ssa.MakeInterface:
		fr.env[instr] = iface{t: instr.X.Type(), v: fr.get(instr.X)}

	case *ssa.Extract:
		fr.env[instr] = fr.get(instr.Tuple).(tuple)[instr.Index]

	case *ssa.Slice:
		fr.env[instr] = m.slice(instr, fr.get(instr.X), fr.get(instr.Low), fr.get(instr.High), fr.get(instr.Max))

	case *ssa.Return:
		switch len(instr.Results) {
		case 0:
		case 1:
			fr.result = fr.get(instr.Results[0])
		default:
			var res []value
			for _, r := range instr.Results {
				res = append(res, fr.get(r))
			}
			fr.result = tuple(res)
		}
		fr.block = nil
		return kReturn

	case *ssa.RunDefers:
		fr.runDefers()

	case *ssa.Panic:
		v := fr.get(instr.X)
		panic(targetPanic{v: v, desc: "panic(" + m.describe(v) + ")", stack: m.stackString()})

	case *ssa.Send:
		m.chanSend(fr.get(instr.Chan).(*Chan), fr.get(instr.X))

	case *ssa.Store:
		m.store(deref(instr.Addr.Type()), fr.get(instr.Addr), fr.get(instr.Val))

	case *ssa.If:
		succ := 1
		if m.branch(fr.get(instr.Cond).(*Term)) {
			succ = 0
		}
		fr.prevBlock, fr.block = fr.block, fr.block.Succs[succ]
		return kJump

	case *ssa.Jump:
		fr.prevBlock, fr.block = fr.block, fr.block.Succs[0]
		return kJump

	case *ssa.Defer:
		fn, args := m.prepareCall(fr, &instr.Call)
		fr.defers = &deferred{fn: fn, args: args, tail: fr.defers}

	case *ssa.Go:
		fn, args := m.prepareCall(fr, &instr.Call)
		m.spawn(fr, fn, args)

	case *ssa.MakeChan:
		n := m.concretize(fr.get(instr.Size).(*Term))
		fr.env[instr] = &Chan{cap: int(n), elemT: instr.Type().Underlying().(*types.Chan).Elem()}

	case *ssa.Alloc:
		var addr *value
		if instr.Heap {
			addr = new(value)
			fr.env[instr] = addr
			*addr = m.zero(deref(instr.Type()))
		} else {
			addr = fr.env[instr].(*value)
			// re-zero a local on every execution of the Alloc
			*addr = m.zero(deref(instr.Type()))
		}

	case *ssa.MakeSlice:
		capv := int64(m.concretize(fr.get(instr.Cap).(*Term)))
		lenv := int64(m.concretize(fr.get(instr.Len).(*Term)))
		if lenv < 0 || capv < lenv || capv > 1<<24 {
			m.goPanic("runtime error: makeslice: len out of range")
		}
		sl := make([]value, capv)
		tElt := instr.Type().Underlying().(*types.Slice).Elem()
		z := m.zero(tElt)
		for i := range sl {
			sl[i] = copyVal(z)
		}
		fr.env[instr] = sl[:lenv]

	case *ssa.MakeMap:
		fr.env[instr] = newMap(instr.Type().Underlying().(*types.Map).Key())

	case *ssa.Range:
		fr.env[instr] = m.rangeIter(fr.get(instr.X), instr.X.Type())

	case *ssa.Next:
		fr.env[instr] = fr.get(instr.Iter).(iter).next()

	case *ssa.FieldAddr:
		switch p := fr.get(instr.X).(type) {
		case *value:
			if p == nil {
				m.goPanic("runtime error: invalid memory address or nil pointer dereference")
			}
			fr.env[instr] = &(*p).(structure)[instr.Field]
		case *idxPtr:
			np := &idxPtr{base: p.base, idx: p.idx, path: append(append([]int(nil), p.path...), instr.Field)}
			fr.env[instr] = np
		default:
			panic(fmt.Sprintf("FieldAddr on %T", p))
		}

	case *ssa.Field:
		fr.env[instr] = fr.get(instr.X).(structure)[instr.Field]

	case *ssa.IndexAddr:
		fr.env[instr] = m.indexAddr(fr.get(instr.X), fr.get(instr.Index).(*Term), instr.Index.Type())

	case *ssa.Index:
		fr.env[instr] = m.index(fr.get(instr.X), fr.get(instr.Index).(*Term), instr.Index.Type(), instr.Type())

	case *ssa.Lookup:
		fr.env[instr] = m.lookup(instr, fr.get(instr.X), fr.get(instr.Index))

	case *ssa.MapUpdate:
		mp := fr.get(instr.Map).(*Map)
		if mp == nil {
			m.goPanic("assignment to entry in nil map")
		}
		m.mapSet(mp, fr.get(instr.Key), fr.get(instr.Value))

	case *ssa.TypeAssert:
		fr.env[instr] = m.typeAssert(instr, fr.get(instr.X).(iface))

	case *ssa.MakeClosure:
		var bindings []value
		for _, b := range instr.Bindings {
			bindings = append(bindings, fr.get(b))
		}
		fr.env[instr] = &closure{instr.Fn.(*ssa.Function), bindings}

	case *ssa.Select:
		m.unsupported("select")

	default:
		panic(fmt.Sprintf("unexpected instruction: %T", instr))
	}
	return kNext
}

// idxCheck returns the in-bounds condition for index idx (of static type it) against n.
func (m *Machine) inBounds(idx *Term, n int) *Term {
	i64 := idx
	if idx.Sort.W != 64 {
		panic("index must be widened to 64 bits first")
	}
	return m.st.Bin(OpULT, i64, m.st.BV(64, uint64(n)))
}

func (m *Machine) widenIndex(idx *Term, it types.Type) *Term {
	so, signed := m.sortOf(it)
	if so.W == 64 {
		return idx
	}
	return m.st.Resize(idx, 64, signed)
}

func (m *Machine) indexAddr(x value, idx *Term, it types.Type) value {
	idx = m.widenIndex(idx, it)
	var base []value
	switch x := x.(type) {
	case []value:
		base = x
	case *value:
		if x == nil {
			m.goPanic("runtime error: invalid memory address or nil pointer dereference")
		}
		base = (*x).(array)
	case *idxPtr:
		// pointer to array inside a symbolically indexed aggregate: concretise outer index
		k := m.concretize(x.idx)
		cell := m.followPath(&x.base[k], x.path)
		base = (*cell).(array)
	default:
		panic(fmt.Sprintf("IndexAddr on %T", x))
	}
	if !m.branch(m.inBounds(idx, len(base))) {
		m.goPanic(fmt.Sprintf("runtime error: index out of range [%s] with length %d", m.describe(idx), len(base)))
	}
	if idx.Op == OpConst {
		return &base[idx.C]
	}
	return &idxPtr{base: base, idx: idx}
}

func (m *Machine) index(x value, idx *Term, it types.Type, rt types.Type) value {
	idx = m.widenIndex(idx, it)
	switch x := x.(type) {
	case array:
		if !m.branch(m.inBounds(idx, len(x))) {
			m.goPanic(fmt.Sprintf("runtime error: index out of range [%s] with length %d", m.describe(idx), len(x)))
		}
		if idx.Op == OpConst {
			return copyVal(x[idx.C])
		}
		return m.loadIdx(rt, &idxPtr{base: x, idx: idx})
	case string, *SymStr:
		n := strLen(x)
		if !m.branch(m.inBounds(idx, n)) {
			m.goPanic(fmt.Sprintf("runtime error: index out of range [%s] with length %d", m.describe(idx), n))
		}
		if idx.Op == OpConst {
			return m.strByte(x, int(idx.C))
		}
		bs := m.strBytes(x)
		base := make([]value, len(bs))
		for i, b := range bs {
			base[i] = b
		}
		return m.loadIdx(rt, &idxPtr{base: base, idx: idx})
	}
	panic(fmt.Sprintf("Index on %T", x))
}

func (m *Machine) slice(instr *ssa.Slice, x, lo, hi, max value) value {
	var Len, Cap int
	switch x := x.(type) {
	case string, *SymStr:
		Len = strLen(x)
		Cap = Len
	case []value:
		Len, Cap = len(x), cap(x)
	case *value:
		if x == nil {
			m.goPanic("runtime error: invalid memory address or nil pointer dereference")
		}
		a := (*x).(array)
		Len, Cap = len(a), len(a)
	default:
		panic(fmt.Sprintf("slice of %T", x))
	}
	conc := func(v value, t ssa.Value, def int) int64 {
		if v == nil {
			return int64(def)
		}
		tm := v.(*Term)
		so, signed := m.sortOf(t.Type())
		if so.W != 64 {
			tm = m.st.Resize(tm, 64, signed)
		}
		return int64(m.concretize(tm))
	}
	l := conc(lo, instr.Low, 0)
	h := conc(hi, instr.High, Len)
	mx := conc(max, instr.Max, Cap)
	if max == nil {
		mx = int64(Cap)
	}
	if _, isStr := instr.X.Type().Underlying().(*types.Basic); isStr {
		if h < 0 || h > int64(Len) {
			m.goPanic(fmt.Sprintf("runtime error: slice bounds out of range [:%d] with length %d", h, Len))
		}
		if l < 0 || l > h {
			m.goPanic(fmt.Sprintf("runtime error: slice bounds out of range [%d:%d]", l, h))
		}
		return m.strSlice(x, int(l), int(h))
	}
	if mx < 0 || mx > int64(Cap) {
		m.goPanic(fmt.Sprintf("runtime error: slice bounds out of range [::%d] with capacity %d", mx, Cap))
	}
	if h < 0 || h > mx {
		m.goPanic(fmt.Sprintf("runtime error: slice bounds out of range [:%d] with capacity %d", h, mx))
	}
	if l < 0 || l > h {
		m.goPanic(fmt.Sprintf("runtime error: slice bounds out of range [%d:%d]", l, h))
	}
	switch x := x.(type) {
	case []value:
		if x == nil {
			return []value(nil)
		}
		return x[l:h:mx]
	case *value:
		a := (*x).(array)
		return []value(a)[l:h:mx]
	}
	panic("unreachable")
}

func (m *Machine) describe(v value) string {
	switch v := v.(type) {
	case *Term:
		if v.Op == OpConst {
			switch v.Sort.K {
			case KBool:
				return fmt.Sprint(v.C != 0)
			case KBV:
				return fmt.Sprint(sext(v.C, v.Sort.W))
			case KFP:
				return fmt.Sprint(fval(v.Sort, v.C))
			}
		}
		return fmt.Sprintf("<sym:%d>", sext(m.evalT(v), v.Sort.W))
	case string:
		return fmt.Sprintf("%q", v)
	case *SymStr:
		var sb strings.Builder
		for _, b := range v.b {
			sb.WriteByte(byte(m.evalT(b)))
		}
		return fmt.Sprintf("<symstr:%q>", sb.String())
	case iface:
		if v.t == nil {
			return "nil"
		}
		if s, ok := v.v.(string); ok {
			return s
		}
		if st, ok := v.v.(*value); ok && st != nil {
			if ss, ok := (*st).(structure); ok && len(ss) > 0 {
				if s, ok := ss[0].(string); ok {
					return v.t.String() + ":" + s
				}
			}
		}
		return v.t.String() + ":" + m.describe(v.v)
	case structure:
		var parts []string
		for _, f := range v {
			parts = append(parts, m.describe(f))
		}
		return "{" + strings.Join(parts, ",") + "}"
	}
	return fmt.Sprintf("%T", v)
}

func (m *Machine) typeAssert(instr *ssa.TypeAssert, itf iface) value {
	var v value
	err := ""
	if itf.t == nil {
		err = fmt.Sprintf("interface conversion: interface is nil, not %s", instr.AssertedType)
	} else if idst, ok := instr.AssertedType.Underlying().(*types.Interface); ok {
		v = itf
		if _, isNative := itf.v.(*native); !isNative {
			if meth, _ := types.MissingMethod(itf.t, idst, true); meth != nil {
				err = fmt.Sprintf("interface conversion: %v is not %v: missing method %s", itf.t, idst, meth.Name())
			}
		}
	} else if types.Identical(itf.t, instr.AssertedType) {
		v = itf.v
	} else {
		err = fmt.Sprintf("interface conversion: interface is %s, not %s", itf.t, instr.AssertedType)
	}
	if err != "" {
		if !instr.CommaOk {
			m.goPanic(err)
		}
		return tuple{m.zero(instr.AssertedType), m.st.ff}
	}
	if instr.CommaOk {
		return tuple{v, m.st.tt}
	}
	return v
}

var _ = token.NoPos
