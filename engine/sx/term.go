// Package sx is a symbolic executor for go/ssa programs whose scalar values
// are SMT terms.  term.go: term construction (with constant folding), native
// evaluation under a model, and SMT-LIB2 printing.
package sx

import (
	"fmt"
	"sort"
	"math"
	"math/bits"
	"strconv"
	"strings"
)

type Kind uint8

const (
	KBool Kind = iota
	KBV
	KFP // W = 32 or 64
)

type Sort struct {
	K Kind
	W int
}

var (
	SBool = Sort{KBool, 0}
	S8    = Sort{KBV, 8}
	S16   = Sort{KBV, 16}
	S32   = Sort{KBV, 32}
	S64   = Sort{KBV, 64}
	SF64  = Sort{KFP, 64}
	SF32  = Sort{KFP, 32}
)

func (s Sort) String() string {
	switch s.K {
	case KBool:
		return "Bool"
	case KBV:
		return fmt.Sprintf("(_ BitVec %d)", s.W)
	case KFP:
		if s.W == 32 {
			return "(_ FloatingPoint 8 24)"
		}
		return "(_ FloatingPoint 11 53)"
	}
	return "?"
}

type Op uint8

const (
	OpConst Op = iota
	OpVar
	OpNot
	OpAnd
	OpOr
	OpEq
	OpIte
	OpAdd
	OpSub
	OpMul
	OpUDiv
	OpURem
	OpSDiv
	OpSRem
	OpBAnd
	OpBOr
	OpBXor
	OpBNot
	OpNeg
	OpShl
	OpLShr
	OpAShr
	OpULT
	OpULE
	OpSLT
	OpSLE
	OpExtract // I1=hi I2=lo
	OpConcat
	OpZExt // to Sort.W
	OpSExt
	OpFAdd
	OpFSub
	OpFMul
	OpFDiv
	OpFNeg
	OpFAbs
	OpFLT
	OpFLE
	OpFEQ
	OpFIsNaN
	OpSToF   // signed bv -> fp (RNE)
	OpUToF   // unsigned bv -> fp
	OpFToS   // fp -> signed bv RTZ
	OpFToU   // fp -> unsigned bv RTZ
	OpFRound // I1: 0 RNA(math.Round) 1 RTZ(Trunc) 2 RTN(Floor) 3 RTP(Ceil) 4 RNE
	OpFToF   // 32<->64
	OpFBits  // bv -> fp reinterpret
	OpUF     // Name, args; semantics from Store.UF[Name]
	OpTable  // Tab, Args[0]=index
)

var opNames = map[Op]string{
	OpNot: "not", OpAnd: "and", OpOr: "or", OpEq: "=", OpIte: "ite",
	OpAdd: "bvadd", OpSub: "bvsub", OpMul: "bvmul", OpUDiv: "bvudiv", OpURem: "bvurem",
	OpSDiv: "bvsdiv", OpSRem: "bvsrem", OpBAnd: "bvand", OpBOr: "bvor", OpBXor: "bvxor",
	OpBNot: "bvnot", OpNeg: "bvneg", OpShl: "bvshl", OpLShr: "bvlshr", OpAShr: "bvashr",
	OpULT: "bvult", OpULE: "bvule", OpSLT: "bvslt", OpSLE: "bvsle", OpConcat: "concat",
	OpFNeg: "fp.neg", OpFAbs: "fp.abs", OpFLT: "fp.lt", OpFLE: "fp.leq", OpFEQ: "fp.eq", OpFIsNaN: "fp.isNaN",
}

// Table is a constant lookup table (e.g. unicode.properties, utf8.first).
type Table struct {
	ID   int
	Vals []uint64
	In   Sort // index sort
	Out  Sort
}

// UFDef gives the native meaning of an uninterpreted function and the lemma
// generator used for lazy refinement.
type UFDef struct {
	Name string
	In   []Sort
	Out  Sort
	// Native computes the function on concrete arguments.
	Native func(args []uint64) uint64
	// Lemma returns, for concrete argument values, an interval [lo,hi] of the
	// first argument (with optional parity constraint par: -1 none, 0 even
	// offset from lo, 1 odd) on which the function equals f(x) = base + x*mulx
	// (mulx is 0 or 1).  Used for refinement.
	Lemma func(arg uint64) (lo, hi uint64, par int, base uint64, mulx uint64)
	// Eager, if set, is a complete SMT-LIB definition body over variable "x".
	Eager string
	// EagerLo, if set, defines the function for arguments <= 0xFF; above that it stays uninterpreted.
	EagerLo string
	// Coarse, if set, returns a globally valid axiom about one application (argument text, application text).
	Coarse func(an, fn string) string
}

type Term struct {
	Op     Op
	Sort   Sort
	Args   []*Term
	C      uint64
	Name   string
	I1, I2 int
	Tab    *Table
	id     int
	size   int // number of nodes (tree size, capped)
	h1, h2 uint64 // structural hash (stable across paths)
	vars   []string // sorted variable names occurring in the term (nil for constants)
}

func (t *Term) IsConst() bool { return t.Op == OpConst }
func (t *Term) IsTrue() bool  { return t.Op == OpConst && t.Sort.K == KBool && t.C == 1 }
func (t *Term) IsFalse() bool { return t.Op == OpConst && t.Sort.K == KBool && t.C == 0 }

// Store interns non-constant terms.
type Store struct {
	tab    map[string]*Term
	next   int
	Vars   []*Term
	UF     map[string]*UFDef
	Tables []*Table
	tabKey map[string]*Table
	tt, ff *Term
}

func NewStore() *Store {
	s := &Store{tab: map[string]*Term{}, UF: map[string]*UFDef{}, tabKey: map[string]*Table{}}
	s.tt = &Term{Op: OpConst, Sort: SBool, C: 1, id: -1, size: 1}
	s.ff = &Term{Op: OpConst, Sort: SBool, C: 0, id: -2, size: 1}
	s.next = 1
	return s
}

// ResetPath drops interned terms (called between paths; constants and tables persist).
func (s *Store) ResetPath() {
	s.tab = map[string]*Term{}
	s.Vars = s.Vars[:0]
}

func mask(w int) uint64 {
	if w >= 64 {
		return ^uint64(0)
	}
	return (uint64(1) << uint(w)) - 1
}

func sext(v uint64, w int) int64 {
	if w >= 64 {
		return int64(v)
	}
	sh := uint(64 - w)
	return int64(v<<sh) >> sh
}

func (s *Store) Bool(b bool) *Term {
	if b {
		return s.tt
	}
	return s.ff
}

func (s *Store) BV(w int, v uint64) *Term {
	return &Term{Op: OpConst, Sort: Sort{KBV, w}, C: v & mask(w), size: 1}
}

func (s *Store) F64(f float64) *Term {
	return &Term{Op: OpConst, Sort: SF64, C: math.Float64bits(f), size: 1}
}
func (s *Store) F32(f float32) *Term {
	return &Term{Op: OpConst, Sort: SF32, C: uint64(math.Float32bits(f)), size: 1}
}

func (s *Store) Const(so Sort, c uint64) *Term {
	switch so.K {
	case KBool:
		return s.Bool(c != 0)
	case KBV:
		return s.BV(so.W, c)
	}
	return &Term{Op: OpConst, Sort: so, C: c, size: 1}
}

func (s *Store) Var(name string, so Sort) *Term {
	key := "v|" + name
	if t, ok := s.tab[key]; ok {
		return t
	}
	t := &Term{Op: OpVar, Sort: so, Name: name, id: s.next, size: 1}
	t.h1 = strHash(name, 0xcbf29ce484222325)
	t.h2 = strHash(name, 0x84222325cbf29ce4)
	t.vars = []string{name}
	s.next++
	s.tab[key] = t
	s.Vars = append(s.Vars, t)
	return t
}

func (s *Store) mk(op Op, so Sort, i1, i2 int, name string, tab *Table, args ...*Term) *Term {
	// constant folding
	allc := true
	for _, a := range args {
		if a.Op != OpConst {
			allc = false
			break
		}
	}
	if allc && op != OpVar {
		var av [3]uint64
		avs := av[:0]
		for _, a := range args {
			avs = append(avs, a.C)
		}
		tmp := Term{Op: op, Sort: so, Args: args, I1: i1, I2: i2, Name: name, Tab: tab}
		return s.Const(so, s.evalOp(&tmp, avs))
	}
	var sb strings.Builder
	sb.WriteString(strconv.Itoa(int(op)))
	sb.WriteByte('|')
	sb.WriteString(strconv.Itoa(so.W))
	sb.WriteByte('|')
	if i1 != 0 || i2 != 0 {
		sb.WriteString(strconv.Itoa(i1))
		sb.WriteByte(',')
		sb.WriteString(strconv.Itoa(i2))
	}
	sb.WriteString(name)
	if tab != nil {
		sb.WriteString(strconv.Itoa(tab.ID))
	}
	sz := 1
	for _, a := range args {
		sb.WriteByte('|')
		if a.Op == OpConst {
			sb.WriteByte('c')
			sb.WriteString(strconv.Itoa(int(a.Sort.K)))
			sb.WriteByte('.')
			sb.WriteString(strconv.Itoa(a.Sort.W))
			sb.WriteByte('.')
			sb.WriteString(strconv.FormatUint(a.C, 16))
		} else {
			sb.WriteString(strconv.Itoa(a.id))
		}
		sz += a.size
	}
	key := sb.String()
	if t, ok := s.tab[key]; ok {
		return t
	}
	if sz > 1<<30 {
		sz = 1 << 30
	}
	t := &Term{Op: op, Sort: so, Args: args, I1: i1, I2: i2, Name: name, Tab: tab, id: s.next, size: sz}
	h1 := mix(uint64(op)<<16|uint64(so.W), uint64(i1)<<20^uint64(i2))
	h2 := mix(0xabcdef^uint64(op), uint64(so.W)<<8|uint64(so.K))
	if name != "" {
		h1 = mix(h1, strHash(name, 7))
		h2 = mix(h2, strHash(name, 11))
	}
	if tab != nil {
		h1 = mix(h1, uint64(tab.ID)+99)
		h2 = mix(h2, uint64(tab.ID)+77)
	}
	for _, a := range args {
		a1, a2 := a.hashes()
		h1 = mix(h1, a1)
		h2 = mix(h2, a2)
	}
	t.h1, t.h2 = h1, h2
	t.vars = mergeVars(args)
	s.next++
	s.tab[key] = t
	return t
}

func mix(h, v uint64) uint64 {
	h ^= v + 0x9e3779b97f4a7c15 + (h << 6) + (h >> 2)
	h *= 0xff51afd7ed558ccd
	h ^= h >> 33
	return h
}

func strHash(s string, seed uint64) uint64 {
	h := seed
	for i := 0; i < len(s); i++ {
		h = (h ^ uint64(s[i])) * 0x100000001b3
	}
	return h
}

// hashes returns the structural hash pair of t.
func (t *Term) hashes() (uint64, uint64) {
	if t.Op == OpConst {
		a := mix(uint64(t.Sort.K)<<8|uint64(t.Sort.W), t.C)
		return a, mix(a, 0x1234567)
	}
	return t.h1, t.h2
}

func mergeVars(args []*Term) []string {
	var out []string
	for _, a := range args {
		for _, v := range a.vars {
			found := false
			for _, o := range out {
				if o == v {
					found = true
					break
				}
			}
			if !found {
				out = append(out, v)
			}
		}
	}
	sort.Strings(out)
	return out
}

func sameConst(a, b *Term) bool {
	return a.Op == OpConst && b.Op == OpConst && a.C == b.C && a.Sort == b.Sort
}

// ---- boolean ----

func (s *Store) Not(a *Term) *Term {
	if a.Op == OpConst {
		return s.Bool(a.C == 0)
	}
	if a.Op == OpNot {
		return a.Args[0]
	}
	return s.mk(OpNot, SBool, 0, 0, "", nil, a)
}

func (s *Store) And(a, b *Term) *Term {
	if a.IsFalse() || b.IsFalse() {
		return s.ff
	}
	if a.IsTrue() {
		return b
	}
	if b.IsTrue() {
		return a
	}
	if a == b {
		return a
	}
	return s.mk(OpAnd, SBool, 0, 0, "", nil, a, b)
}

func (s *Store) Or(a, b *Term) *Term {
	if a.IsTrue() || b.IsTrue() {
		return s.tt
	}
	if a.IsFalse() {
		return b
	}
	if b.IsFalse() {
		return a
	}
	if a == b {
		return a
	}
	return s.mk(OpOr, SBool, 0, 0, "", nil, a, b)
}

func (s *Store) Eq(a, b *Term) *Term {
	if a.Sort != b.Sort {
		panic(fmt.Sprintf("Eq: sort mismatch %v %v", a.Sort, b.Sort))
	}
	if a.Sort.K == KFP {
		panic("Eq on FP: use FEQ")
	}
	if a == b {
		return s.tt
	}
	if a.Op == OpConst && b.Op == OpConst {
		return s.Bool(a.C == b.C)
	}
	if a.Sort.K == KBool {
		if a.IsTrue() {
			return b
		}
		if b.IsTrue() {
			return a
		}
		if a.IsFalse() {
			return s.Not(b)
		}
		if b.IsFalse() {
			return s.Not(a)
		}
	}
	// eq(ite(c,k1,k2), k) with constants
	if b.Op == OpConst && a.Op == OpIte && a.Args[1].Op == OpConst && a.Args[2].Op == OpConst {
		t1, t2 := a.Args[1].C == b.C, a.Args[2].C == b.C
		switch {
		case t1 && t2:
			return s.tt
		case t1:
			return a.Args[0]
		case t2:
			return s.Not(a.Args[0])
		default:
			return s.ff
		}
	}
	if a.Op == OpConst && b.Op != OpConst {
		a, b = b, a
	}
	if b.Op == OpConst && a.Op == OpFToS {
		return s.And(s.Bin(OpSLE, a, b), s.Bin(OpSLE, b, a))
	}
	if b.Op == OpConst && a.Op == OpIte && a.Sort.K == KBV && (a.Args[1].Op == OpConst || a.Args[2].Op == OpConst) {
		return s.Ite(a.Args[0], s.Eq(a.Args[1], b), s.Eq(a.Args[2], b))
	}
	// zext(x) == const: compare at the narrow width
	if b.Op == OpConst && a.Op == OpZExt {
		inner := a.Args[0]
		if b.C > mask(inner.Sort.W) {
			return s.ff
		}
		return s.Eq(inner, s.BV(inner.Sort.W, b.C))
	}
	if a.id > b.id && b.Op != OpConst {
		a, b = b, a
	}
	return s.mk(OpEq, SBool, 0, 0, "", nil, a, b)
}

func (s *Store) Ite(c, a, b *Term) *Term {
	if c.IsTrue() {
		return a
	}
	if c.IsFalse() {
		return b
	}
	if a == b || sameConst(a, b) {
		return a
	}
	if a.Sort != b.Sort {
		panic(fmt.Sprintf("Ite: sort mismatch %v %v", a.Sort, b.Sort))
	}
	if a.Sort.K == KBool {
		if a.IsTrue() && b.IsFalse() {
			return c
		}
		if a.IsFalse() && b.IsTrue() {
			return s.Not(c)
		}
		if a.IsTrue() {
			return s.Or(c, b)
		}
		if a.IsFalse() {
			return s.And(s.Not(c), b)
		}
		if b.IsTrue() {
			return s.Or(s.Not(c), a)
		}
		if b.IsFalse() {
			return s.And(c, a)
		}
	}
	return s.mk(OpIte, a.Sort, 0, 0, "", nil, c, a, b)
}

// ---- bit-vectors ----

func (s *Store) Bin(op Op, a, b *Term) *Term {
	if a.Sort != b.Sort {
		panic(fmt.Sprintf("Bin %v: sort mismatch %v %v", opNames[op], a.Sort, b.Sort))
	}
	so := a.Sort
	switch op {
	case OpULT, OpULE, OpSLT, OpSLE:
		if a == b {
			return s.Bool(op == OpULE || op == OpSLE)
		}
		// comparison of a constant with ite(c, x, y): distribute when an arm is constant
		if b.Op == OpConst && a.Op == OpIte && (a.Args[1].Op == OpConst || a.Args[2].Op == OpConst) {
			return s.Ite(a.Args[0], s.Bin(op, a.Args[1], b), s.Bin(op, a.Args[2], b))
		}
		if a.Op == OpConst && b.Op == OpIte && (b.Args[1].Op == OpConst || b.Args[2].Op == OpConst) {
			return s.Ite(b.Args[0], s.Bin(op, a, b.Args[1]), s.Bin(op, a, b.Args[2]))
		}
		// signed comparison of int(f) (round toward zero) with a constant: compare f itself.
		// Valid because the conversion is only built for f within the integer range.
		if (op == OpSLT || op == OpSLE) && so.K == KBV {
			if r := s.cmpFToS(op, a, b); r != nil {
				return r
			}
		}
		// zext(x) <u const  etc.: narrow
		if so.K == KBV && (op == OpULT || op == OpULE) {
			if b.Op == OpConst && a.Op == OpZExt {
				in := a.Args[0]
				if b.C > mask(in.Sort.W) {
					return s.tt
				}
				return s.Bin(op, in, s.BV(in.Sort.W, b.C))
			}
			if a.Op == OpConst && b.Op == OpZExt {
				in := b.Args[0]
				if a.C > mask(in.Sort.W) {
					return s.ff
				}
				return s.Bin(op, s.BV(in.Sort.W, a.C), in)
			}
			if op == OpULT && b.Op == OpConst && b.C == 0 {
				return s.ff
			}
			if op == OpULE && a.Op == OpConst && a.C == 0 {
				return s.tt
			}
		}
		if so.K == KBV && (op == OpSLT || op == OpSLE) {
			// signed compare of zero-extended values against small non-negative constants
			if b.Op == OpConst && a.Op == OpZExt && sext(b.C, so.W) >= 0 {
				in := a.Args[0]
				if b.C > mask(in.Sort.W) {
					return s.tt
				}
				uop := OpULT
				if op == OpSLE {
					uop = OpULE
				}
				return s.Bin(uop, in, s.BV(in.Sort.W, b.C))
			}
			if a.Op == OpConst && b.Op == OpZExt && sext(a.C, so.W) >= 0 {
				in := b.Args[0]
				if a.C > mask(in.Sort.W) {
					return s.ff
				}
				uop := OpULT
				if op == OpSLE {
					uop = OpULE
				}
				return s.Bin(uop, s.BV(in.Sort.W, a.C), in)
			}
			if a.Op == OpConst && b.Op == OpZExt && sext(a.C, so.W) < 0 {
				return s.tt
			}
			if b.Op == OpConst && a.Op == OpZExt && sext(b.C, so.W) < 0 {
				return s.ff
			}
		}
		return s.mk(op, SBool, 0, 0, "", nil, a, b)
	case OpAdd:
		if a.Op == OpConst && a.C == 0 {
			return b
		}
		if b.Op == OpConst && b.C == 0 {
			return a
		}
	case OpSub:
		if b.Op == OpConst && b.C == 0 {
			return a
		}
		if a == b {
			return s.BV(so.W, 0)
		}
	case OpMul:
		if a.Op == OpConst && a.C == 1 {
			return b
		}
		if b.Op == OpConst && b.C == 1 {
			return a
		}
		if (a.Op == OpConst && a.C == 0) || (b.Op == OpConst && b.C == 0) {
			return s.BV(so.W, 0)
		}
	case OpBAnd:
		if a == b {
			return a
		}
		if a.Op == OpConst && a.C == mask(so.W) {
			return b
		}
		if b.Op == OpConst && b.C == mask(so.W) {
			return a
		}
		if (a.Op == OpConst && a.C == 0) || (b.Op == OpConst && b.C == 0) {
			return s.BV(so.W, 0)
		}
	case OpBOr:
		if a == b {
			return a
		}
		if a.Op == OpConst && a.C == 0 {
			return b
		}
		if b.Op == OpConst && b.C == 0 {
			return a
		}
	case OpBXor:
		if a.Op == OpConst && a.C == 0 {
			return b
		}
		if b.Op == OpConst && b.C == 0 {
			return a
		}
	case OpShl, OpLShr, OpAShr:
		if b.Op == OpConst && b.C == 0 {
			return a
		}
	}
	return s.mk(op, so, 0, 0, "", nil, a, b)
}

// cmpFToS rewrites  trunc(f) <op> c  and  c <op> trunc(f)  into floating-point comparisons of f.
func (s *Store) cmpFToS(op Op, a, b *Term) *Term {
	fc := func(v int64, so Sort) *Term {
		if so.W == 32 {
			return s.F32(float32(v))
		}
		return s.F64(float64(v))
	}
	if a.Op == OpFToS && b.Op == OpConst {
		f := a.Args[0]
		c := sext(b.C, b.Sort.W)
		if c > 1<<52 || c < -(1<<52) {
			return nil
		}
		if op == OpSLT { // trunc(f) < c  <=>  trunc(f) <= c-1
			c--
		}
		// trunc(f) <= c
		if c >= 0 {
			return s.FBin(OpFLT, f, fc(c+1, f.Sort))
		}
		return s.FBin(OpFLE, f, fc(c, f.Sort))
	}
	if b.Op == OpFToS && a.Op == OpConst {
		f := b.Args[0]
		c := sext(a.C, a.Sort.W)
		if c > 1<<52 || c < -(1<<52) {
			return nil
		}
		if op == OpSLT { // c < trunc(f)  <=>  c+1 <= trunc(f)
			c++
		}
		// c <= trunc(f)
		if c > 0 {
			return s.FBin(OpFLE, fc(c, f.Sort), f)
		}
		return s.FBin(OpFLT, fc(c-1, f.Sort), f)
	}
	return nil
}

func (s *Store) Un(op Op, a *Term) *Term {
	so := a.Sort
	switch op {
	case OpFIsNaN:
		so = SBool
	}
	return s.mk(op, so, 0, 0, "", nil, a)
}

func (s *Store) Extract(a *Term, hi, lo int) *Term {
	if lo == 0 && hi == a.Sort.W-1 {
		return a
	}
	if (a.Op == OpZExt || a.Op == OpSExt) && lo == 0 {
		in := a.Args[0]
		if hi == in.Sort.W-1 {
			return in
		}
		if hi < in.Sort.W-1 {
			return s.Extract(in, hi, lo)
		}
	}
	return s.mk(OpExtract, Sort{KBV, hi - lo + 1}, hi, lo, "", nil, a)
}

func (s *Store) ZExt(a *Term, w int) *Term {
	if a.Sort.W == w {
		return a
	}
	if a.Op == OpZExt {
		a = a.Args[0]
	}
	return s.mk(OpZExt, Sort{KBV, w}, 0, 0, "", nil, a)
}

func (s *Store) SExt(a *Term, w int) *Term {
	if a.Sort.W == w {
		return a
	}
	if a.Op == OpZExt { // sign bit of a zero-extended value is 0
		return s.mk(OpZExt, Sort{KBV, w}, 0, 0, "", nil, a.Args[0])
	}
	return s.mk(OpSExt, Sort{KBV, w}, 0, 0, "", nil, a)
}

// Resize converts a bit-vector to width w (truncate, or extend per signedness).
func (s *Store) Resize(a *Term, w int, signed bool) *Term {
	switch {
	case a.Sort.W == w:
		return a
	case a.Sort.W > w:
		return s.Extract(a, w-1, 0)
	case signed:
		return s.SExt(a, w)
	}
	return s.ZExt(a, w)
}

func (s *Store) Concat(hi, lo *Term) *Term {
	return s.mk(OpConcat, Sort{KBV, hi.Sort.W + lo.Sort.W}, 0, 0, "", nil, hi, lo)
}

// ---- floats ----

func (s *Store) FBin(op Op, a, b *Term) *Term {
	so := a.Sort
	switch op {
	case OpFLT, OpFLE, OpFEQ:
		so = SBool
	}
	return s.mk(op, so, 0, 0, "", nil, a, b)
}

func (s *Store) IntToF(a *Term, signed bool, to Sort) *Term {
	op := OpUToF
	if signed {
		op = OpSToF
	}
	return s.mk(op, to, 0, 0, "", nil, a)
}

func (s *Store) FToInt(a *Term, signed bool, w int) *Term {
	op := OpFToU
	if signed {
		op = OpFToS
	}
	return s.mk(op, Sort{KBV, w}, 0, 0, "", nil, a)
}

func (s *Store) FRound(a *Term, mode int) *Term {
	return s.mk(OpFRound, a.Sort, mode, 0, "", nil, a)
}

func (s *Store) FToF(a *Term, to Sort) *Term {
	if a.Sort == to {
		return a
	}
	return s.mk(OpFToF, to, 0, 0, "", nil, a)
}

func (s *Store) FBits(a *Term, to Sort) *Term {
	return s.mk(OpFBits, to, 0, 0, "", nil, a)
}

// ---- UF / tables ----

func (s *Store) App(name string, args ...*Term) *Term {
	d := s.UF[name]
	if d == nil {
		panic("unknown UF " + name)
	}
	return s.mk(OpUF, d.Out, 0, 0, name, nil, args...)
}

func (s *Store) InternTable(vals []uint64, in, out Sort) *Table {
	var sb strings.Builder
	sb.WriteString(in.String())
	sb.WriteString(out.String())
	for _, v := range vals {
		sb.WriteString(strconv.FormatUint(v, 36))
		sb.WriteByte(',')
	}
	k := sb.String()
	if t, ok := s.tabKey[k]; ok {
		return t
	}
	t := &Table{ID: len(s.Tables), Vals: append([]uint64(nil), vals...), In: in, Out: out}
	s.Tables = append(s.Tables, t)
	s.tabKey[k] = t
	return t
}

func (s *Store) Lookup(tab *Table, idx *Term) *Term {
	return s.mk(OpTable, tab.Out, 0, 0, "", tab, idx)
}

// ---- evaluation ----

func f64(c uint64) float64 { return math.Float64frombits(c) }
func f32(c uint64) float32 { return math.Float32frombits(uint32(c)) }

func fval(so Sort, c uint64) float64 {
	if so.W == 32 {
		return float64(f32(c))
	}
	return f64(c)
}

func fbits(so Sort, f float64) uint64 {
	if so.W == 32 {
		return uint64(math.Float32bits(float32(f)))
	}
	return math.Float64bits(f)
}

func b2u(b bool) uint64 {
	if b {
		return 1
	}
	return 0
}

// evalOp computes t's operator on concrete argument values.
func (s *Store) evalOp(t *Term, a []uint64) uint64 {
	w := t.Sort.W
	m := mask(w)
	aw := 0
	if len(t.Args) > 0 {
		aw = t.Args[0].Sort.W
	}
	switch t.Op {
	case OpNot:
		return a[0] ^ 1
	case OpAnd:
		return a[0] & a[1]
	case OpOr:
		return a[0] | a[1]
	case OpEq:
		return b2u(a[0] == a[1])
	case OpIte:
		if a[0] != 0 {
			return a[1]
		}
		return a[2]
	case OpAdd:
		return (a[0] + a[1]) & m
	case OpSub:
		return (a[0] - a[1]) & m
	case OpMul:
		return (a[0] * a[1]) & m
	case OpUDiv:
		if a[1] == 0 {
			return m
		}
		return a[0] / a[1]
	case OpURem:
		if a[1] == 0 {
			return a[0]
		}
		return a[0] % a[1]
	case OpSDiv:
		x, y := sext(a[0], w), sext(a[1], w)
		if y == 0 {
			if x < 0 {
				return 1
			}
			return m
		}
		if y == -1 {
			return uint64(-x) & m
		}
		return uint64(x/y) & m
	case OpSRem:
		x, y := sext(a[0], w), sext(a[1], w)
		if y == 0 {
			return a[0]
		}
		if y == -1 {
			return 0
		}
		return uint64(x%y) & m
	case OpBAnd:
		return a[0] & a[1]
	case OpBOr:
		return a[0] | a[1]
	case OpBXor:
		return a[0] ^ a[1]
	case OpBNot:
		return ^a[0] & m
	case OpNeg:
		return (-a[0]) & m
	case OpShl:
		if a[1] >= uint64(w) {
			return 0
		}
		return (a[0] << a[1]) & m
	case OpLShr:
		if a[1] >= uint64(w) {
			return 0
		}
		return a[0] >> a[1]
	case OpAShr:
		x := sext(a[0], w)
		sh := a[1]
		if sh >= uint64(w) {
			sh = uint64(w) - 1
		}
		return uint64(x>>sh) & m
	case OpULT:
		return b2u(a[0] < a[1])
	case OpULE:
		return b2u(a[0] <= a[1])
	case OpSLT:
		return b2u(sext(a[0], aw) < sext(a[1], aw))
	case OpSLE:
		return b2u(sext(a[0], aw) <= sext(a[1], aw))
	case OpExtract:
		return (a[0] >> uint(t.I2)) & mask(t.I1-t.I2+1)
	case OpConcat:
		return (a[0]<<uint(t.Args[1].Sort.W) | a[1]) & m
	case OpZExt:
		return a[0]
	case OpSExt:
		return uint64(sext(a[0], aw)) & m
	case OpFAdd, OpFSub, OpFMul, OpFDiv:
		if w == 32 {
			x, y := f32(a[0]), f32(a[1])
			var r float32
			switch t.Op {
			case OpFAdd:
				r = x + y
			case OpFSub:
				r = x - y
			case OpFMul:
				r = x * y
			case OpFDiv:
				r = x / y
			}
			return uint64(math.Float32bits(r))
		}
		x, y := f64(a[0]), f64(a[1])
		var r float64
		switch t.Op {
		case OpFAdd:
			r = x + y
		case OpFSub:
			r = x - y
		case OpFMul:
			r = x * y
		case OpFDiv:
			r = x / y
		}
		return math.Float64bits(r)
	case OpFNeg:
		return fbits(t.Sort, -fval(t.Sort, a[0]))
	case OpFAbs:
		return fbits(t.Sort, math.Abs(fval(t.Sort, a[0])))
	case OpFLT:
		return b2u(fval(t.Args[0].Sort, a[0]) < fval(t.Args[0].Sort, a[1]))
	case OpFLE:
		return b2u(fval(t.Args[0].Sort, a[0]) <= fval(t.Args[0].Sort, a[1]))
	case OpFEQ:
		return b2u(fval(t.Args[0].Sort, a[0]) == fval(t.Args[0].Sort, a[1]))
	case OpFIsNaN:
		return b2u(math.IsNaN(fval(t.Args[0].Sort, a[0])))
	case OpSToF:
		return fbits(t.Sort, float64(sext(a[0], aw)))
	case OpUToF:
		return fbits(t.Sort, float64(a[0]))
	case OpFToS:
		f := fval(t.Args[0].Sort, a[0])
		return uint64(int64(f)) & m
	case OpFToU:
		f := fval(t.Args[0].Sort, a[0])
		return uint64(f) & m
	case OpFRound:
		f := fval(t.Sort, a[0])
		switch t.I1 {
		case 0:
			f = math.Round(f)
		case 1:
			f = math.Trunc(f)
		case 2:
			f = math.Floor(f)
		case 3:
			f = math.Ceil(f)
		case 4:
			f = math.RoundToEven(f)
		}
		return fbits(t.Sort, f)
	case OpFToF:
		return fbits(t.Sort, fval(t.Args[0].Sort, a[0]))
	case OpFBits:
		return a[0]
	case OpUF:
		return s.UF[t.Name].Native(a)
	case OpTable:
		if a[0] >= uint64(len(t.Tab.Vals)) {
			return 0
		}
		return t.Tab.Vals[a[0]]
	}
	panic(fmt.Sprintf("evalOp: op %d", t.Op))
}

// Model maps variable names to values.
type Model map[string]uint64

// Eval evaluates t natively under model m (missing variables are 0).
func (s *Store) Eval(t *Term, m Model) uint64 {
	if t.Op == OpConst {
		return t.C
	}
	memo := map[*Term]uint64{}
	return s.eval(t, m, memo)
}

func (s *Store) EvalMemo(t *Term, m Model, memo map[*Term]uint64) uint64 {
	if t.Op == OpConst {
		return t.C
	}
	return s.eval(t, m, memo)
}

func (s *Store) eval(t *Term, m Model, memo map[*Term]uint64) uint64 {
	switch t.Op {
	case OpConst:
		return t.C
	case OpVar:
		return m[t.Name]
	}
	if v, ok := memo[t]; ok {
		return v
	}
	var v uint64
	switch t.Op {
	case OpIte:
		if s.eval(t.Args[0], m, memo) != 0 {
			v = s.eval(t.Args[1], m, memo)
		} else {
			v = s.eval(t.Args[2], m, memo)
		}
	case OpAnd:
		v = s.eval(t.Args[0], m, memo)
		if v != 0 {
			v = s.eval(t.Args[1], m, memo)
		}
	case OpOr:
		v = s.eval(t.Args[0], m, memo)
		if v == 0 {
			v = s.eval(t.Args[1], m, memo)
		}
	default:
		var av [3]uint64
		a := av[:0]
		for _, x := range t.Args {
			a = append(a, s.eval(x, m, memo))
		}
		v = s.evalOp(t, a)
	}
	memo[t] = v
	return v
}

// ---- printing ----

func constLit(so Sort, c uint64) string {
	switch so.K {
	case KBool:
		if c != 0 {
			return "true"
		}
		return "false"
	case KBV:
		if so.W%4 == 0 {
			return fmt.Sprintf("#x%0*x", so.W/4, c)
		}
		return fmt.Sprintf("#b%0*b", so.W, c)
	case KFP:
		if so.W == 64 {
			return fmt.Sprintf("(fp #b%b #b%011b #x%013x)", c>>63, (c>>52)&0x7ff, c&((1<<52)-1))
		}
		return fmt.Sprintf("(fp #b%b #b%08b #b%023b)", (c>>31)&1, (c>>23)&0xff, c&((1<<23)-1))
	}
	return "?"
}

// head returns the SMT-LIB operator text for t (without arguments).
func (t *Term) head() string {
	switch t.Op {
	case OpExtract:
		return fmt.Sprintf("(_ extract %d %d)", t.I1, t.I2)
	case OpZExt:
		return fmt.Sprintf("(_ zero_extend %d)", t.Sort.W-t.Args[0].Sort.W)
	case OpSExt:
		return fmt.Sprintf("(_ sign_extend %d)", t.Sort.W-t.Args[0].Sort.W)
	case OpFAdd:
		return "fp.add RNE"
	case OpFSub:
		return "fp.sub RNE"
	case OpFMul:
		return "fp.mul RNE"
	case OpFDiv:
		return "fp.div RNE"
	case OpSToF:
		return fmt.Sprintf("(_ to_fp %s) RNE", fpIdx(t.Sort))
	case OpUToF:
		return fmt.Sprintf("(_ to_fp_unsigned %s) RNE", fpIdx(t.Sort))
	case OpFToS:
		return fmt.Sprintf("(_ fp.to_sbv %d) RTZ", t.Sort.W)
	case OpFToU:
		return fmt.Sprintf("(_ fp.to_ubv %d) RTZ", t.Sort.W)
	case OpFRound:
		return "fp.roundToIntegral " + [...]string{"RNA", "RTZ", "RTN", "RTP", "RNE"}[t.I1]
	case OpFToF:
		return fmt.Sprintf("(_ to_fp %s) RNE", fpIdx(t.Sort))
	case OpFBits:
		return fmt.Sprintf("(_ to_fp %s)", fpIdx(t.Sort))
	case OpUF:
		return t.Name
	case OpTable:
		return fmt.Sprintf("tbl%d", t.Tab.ID)
	}
	if n, ok := opNames[t.Op]; ok {
		return n
	}
	panic(fmt.Sprintf("head: op %d", t.Op))
}

func fpIdx(so Sort) string {
	if so.W == 32 {
		return "8 24"
	}
	return "11 53"
}

// TableDef returns the define-fun for a table, as an ite chain over runs of equal values.
func (tb *Table) Def() string {
	var sb strings.Builder
	fmt.Fprintf(&sb, "(define-fun tbl%d ((i %s)) %s ", tb.ID, tb.In, tb.Out)
	n := len(tb.Vals)
	closers := 0
	i := 0
	for i < n {
		j := i
		for j+1 < n && tb.Vals[j+1] == tb.Vals[i] {
			j++
		}
		if j == n-1 {
			break
		}
		fmt.Fprintf(&sb, "(ite (bvule i %s) %s ", constLit(tb.In, uint64(j)), constLit(tb.Out, tb.Vals[i]))
		closers++
		i = j + 1
	}
	// last run; indices beyond the table give 0 (never reached: bounds are checked first)
	if uint64(n-1) < mask(tb.In.W) {
		fmt.Fprintf(&sb, "(ite (bvule i %s) %s %s)", constLit(tb.In, uint64(n-1)), constLit(tb.Out, tb.Vals[i]), constLit(tb.Out, 0))
	} else {
		sb.WriteString(constLit(tb.Out, tb.Vals[i]))
	}
	sb.WriteString(strings.Repeat(")", closers))
	sb.WriteString(")")
	return sb.String()
}

var _ = bits.Len

// Dump renders t as an expression annotated with native values (debugging).
func (s *Store) Dump(t *Term, m Model, memo map[*Term]uint64, depth int) string {
	if t.Op == OpConst {
		return constLit(t.Sort, t.C)
	}
	if t.Op == OpVar {
		return fmt.Sprintf("%s{%x}", t.Name, m[t.Name])
	}
	if depth > 12 {
		return fmt.Sprintf("t%d{%x}", t.id, s.EvalMemo(t, m, memo))
	}
	var sb strings.Builder
	sb.WriteString("(" + t.head())
	for _, a := range t.Args {
		sb.WriteString(" " + s.Dump(a, m, memo, depth+1))
	}
	fmt.Fprintf(&sb, "){%x}", s.EvalMemo(t, m, memo))
	return sb.String()
}
