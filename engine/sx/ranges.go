package sx

import "os"

// Cheap implied-value reasoning used before a solver query: unsigned interval
// analysis over terms, refined by comparisons already on the path condition.
// It only ever answers "cond is certainly true/false under the current path
// condition"; when unsure the solver decides.

var noImplied = os.Getenv("GOSX_NOIMPLIED") != ""

type rng struct{ lo, hi uint64 }

func (r rng) single() bool { return r.lo == r.hi }

func full(w int) rng { return rng{0, mask(w)} }

func (m *Machine) rangeOf(t *Term) rng {
	if t.Op == OpConst {
		return rng{t.C, t.C}
	}
	if r, ok := m.rmemo[t]; ok {
		return r
	}
	r := m.rangeCalc(t)
	if b, ok := m.bounds[t]; ok {
		if b.lo > r.lo {
			r.lo = b.lo
		}
		if b.hi < r.hi {
			r.hi = b.hi
		}
		if r.lo > r.hi { // contradictory path; be conservative
			r = b
		}
	}
	m.rmemo[t] = r
	return r
}

func (m *Machine) rangeCalc(t *Term) rng {
	w := t.Sort.W
	if t.Sort.K != KBV {
		return rng{0, ^uint64(0)}
	}
	switch t.Op {
	case OpZExt:
		return m.rangeOf(t.Args[0])
	case OpSExt:
		a := m.rangeOf(t.Args[0])
		aw := t.Args[0].Sort.W
		if a.hi < uint64(1)<<uint(aw-1) {
			return a
		}
	case OpExtract:
		if t.I2 == 0 {
			a := m.rangeOf(t.Args[0])
			if a.hi <= mask(w) {
				return a
			}
		}
	case OpIte:
		c := t.Args[0]
		if v, ok := m.implied(c, 0); ok {
			if v {
				return m.rangeOf(t.Args[1])
			}
			return m.rangeOf(t.Args[2])
		}
		a, b := m.rangeOf(t.Args[1]), m.rangeOf(t.Args[2])
		if b.lo < a.lo {
			a.lo = b.lo
		}
		if b.hi > a.hi {
			a.hi = b.hi
		}
		return a
	case OpAdd:
		a, b := m.rangeOf(t.Args[0]), m.rangeOf(t.Args[1])
		if a.hi <= mask(w)-b.hi && a.hi+b.hi >= a.hi {
			return rng{a.lo + b.lo, a.hi + b.hi}
		}
	case OpMul:
		a, b := m.rangeOf(t.Args[0]), m.rangeOf(t.Args[1])
		if a.hi < 1<<31 && b.hi < 1<<31 && a.hi*b.hi <= mask(w) {
			return rng{a.lo * b.lo, a.hi * b.hi}
		}
	case OpSub:
		a, b := m.rangeOf(t.Args[0]), m.rangeOf(t.Args[1])
		if a.lo >= b.hi {
			return rng{a.lo - b.hi, a.hi - b.lo}
		}
	case OpBAnd:
		a, b := m.rangeOf(t.Args[0]), m.rangeOf(t.Args[1])
		hi := a.hi
		if b.hi < hi {
			hi = b.hi
		}
		return rng{0, hi}
	case OpBOr, OpBXor:
		a, b := m.rangeOf(t.Args[0]), m.rangeOf(t.Args[1])
		hi := a.hi
		if b.hi > hi {
			hi = b.hi
		}
		// next power of two minus one
		n := uint64(1)
		for n <= hi && n != 0 {
			n <<= 1
		}
		lo := uint64(0)
		if t.Op == OpBOr {
			lo = a.lo
			if b.lo > lo {
				lo = b.lo
			}
		}
		return rng{lo, (n - 1) & mask(w)}
	case OpLShr:
		a, b := m.rangeOf(t.Args[0]), m.rangeOf(t.Args[1])
		if b.single() && b.lo < 64 {
			return rng{a.lo >> b.lo, a.hi >> b.lo}
		}
		return rng{0, a.hi}
	case OpShl:
		a, b := m.rangeOf(t.Args[0]), m.rangeOf(t.Args[1])
		if b.single() && b.lo < 64 && a.hi <= mask(w)>>b.lo {
			return rng{a.lo << b.lo, a.hi << b.lo}
		}
	case OpURem:
		b := m.rangeOf(t.Args[1])
		if b.lo > 0 {
			return rng{0, b.hi - 1}
		}
	case OpUDiv:
		a, b := m.rangeOf(t.Args[0]), m.rangeOf(t.Args[1])
		if b.lo > 0 {
			return rng{a.lo / b.hi, a.hi / b.lo}
		}
	case OpFToS, OpFToU:
		if _, ok := m.floatVarsOnly(t.Args[0]); ok {
			e := m.fEnclosure(t.Args[0], m.fbound)
			if e.ok && e.lo >= 0 && e.hi < 9e15 {
				return rng{uint64(e.lo), uint64(e.hi)}
			}
		}
	case OpTable:
		idx := m.rangeOf(t.Args[0])
		vals := t.Tab.Vals
		oob := false
		if idx.hi >= uint64(len(vals)) {
			idx.hi = uint64(len(vals)) - 1
			oob = true
		}
		if idx.lo <= idx.hi && idx.hi-idx.lo <= 512 {
			lo, hi := ^uint64(0), uint64(0)
			if oob {
				lo = 0
			}
			for i := idx.lo; i <= idx.hi; i++ {
				if vals[i] < lo {
					lo = vals[i]
				}
				if vals[i] > hi {
					hi = vals[i]
				}
			}
			return rng{lo, hi}
		}
	case OpUF:
		d := m.st.UF[t.Name]
		if d != nil && len(t.Args) == 1 {
			a := m.rangeOf(t.Args[0])
			if a.hi-a.lo <= 512 {
				lo, hi := ^uint64(0), uint64(0)
				for x := a.lo; ; x++ {
					v := d.Native([]uint64{x})
					if v < lo {
						lo = v
					}
					if v > hi {
						hi = v
					}
					if x == a.hi {
						break
					}
				}
				return rng{lo, hi}
			}
		}
	}
	return full(w)
}

// implied tries to decide a Bool term from the path condition without the solver.
func (m *Machine) implied(c *Term, depth int) (val bool, ok bool) {
	if c.Op == OpConst {
		return c.C != 0, true
	}
	if noImplied {
		return false, false
	}
	if v, k := m.known[c]; k {
		return v, true
	}
	if depth > 6 {
		return false, false
	}
	switch c.Op {
	case OpNot:
		v, k := m.implied(c.Args[0], depth+1)
		return !v, k
	case OpAnd:
		a, ka := m.implied(c.Args[0], depth+1)
		b, kb := m.implied(c.Args[1], depth+1)
		if (ka && !a) || (kb && !b) {
			return false, true
		}
		if ka && kb {
			return true, true
		}
	case OpOr:
		a, ka := m.implied(c.Args[0], depth+1)
		b, kb := m.implied(c.Args[1], depth+1)
		if (ka && a) || (kb && b) {
			return true, true
		}
		if ka && kb {
			return false, true
		}
	case OpFLT, OpFLE, OpFEQ:
		return m.impliedFP(c)
	case OpULT, OpULE:
		if c.Args[0].Sort.K != KBV {
			break
		}
		a, b := m.rangeOf(c.Args[0]), m.rangeOf(c.Args[1])
		if c.Op == OpULT {
			if a.hi < b.lo {
				return true, true
			}
			if a.lo >= b.hi {
				return false, true
			}
		} else {
			if a.hi <= b.lo {
				return true, true
			}
			if a.lo > b.hi {
				return false, true
			}
		}
	case OpSLT, OpSLE:
		if c.Args[0].Sort.K != KBV {
			break
		}
		w := c.Args[0].Sort.W
		a, b := m.rangeOf(c.Args[0]), m.rangeOf(c.Args[1])
		half := uint64(1) << uint(w-1)
		if a.hi < half && b.hi < half { // both non-negative: same as unsigned
			if c.Op == OpSLT {
				if a.hi < b.lo {
					return true, true
				}
				if a.lo >= b.hi {
					return false, true
				}
			} else {
				if a.hi <= b.lo {
					return true, true
				}
				if a.lo > b.hi {
					return false, true
				}
			}
		}
	case OpEq:
		if c.Args[0].Sort.K == KBV {
			a, b := m.rangeOf(c.Args[0]), m.rangeOf(c.Args[1])
			if a.hi < b.lo || b.hi < a.lo {
				return false, true
			}
			if a.single() && b.single() && a.lo == b.lo {
				return true, true
			}
		} else if c.Args[0].Sort.K == KBool {
			a, ka := m.implied(c.Args[0], depth+1)
			b, kb := m.implied(c.Args[1], depth+1)
			if ka && kb {
				return a == b, true
			}
		}
	case OpIte:
		cv, k := m.implied(c.Args[0], depth+1)
		if k {
			if cv {
				return m.implied(c.Args[1], depth+1)
			}
			return m.implied(c.Args[2], depth+1)
		}
	}
	return false, false
}

// setBound intersects the learned interval of x with [lo,hi].
func (m *Machine) setBound(x *Term, lo, hi uint64) {
	if x.Op == OpConst || x.Sort.K != KBV {
		return
	}
	b, ok := m.bounds[x]
	if !ok {
		b = full(x.Sort.W)
	}
	if lo > b.lo {
		b.lo = lo
	}
	if hi < b.hi {
		b.hi = hi
	}
	m.bounds[x] = b
	if len(m.rmemo) > 0 {
		m.rmemo = map[*Term]rng{}
	}
	// propagate through zero-extension
	if x.Op == OpZExt {
		in := x.Args[0]
		mh := hi
		if mh > mask(in.Sort.W) {
			mh = mask(in.Sort.W)
		}
		if lo <= mask(in.Sort.W) {
			m.setBound(in, lo, mh)
		}
	}
}

// learnBounds extracts interval facts from an asserted comparison.
func (m *Machine) learnBounds(t *Term, val bool) {
	if len(t.Args) != 2 || t.Args[0].Sort.K != KBV {
		return
	}
	set := m.setBound
	a, b := t.Args[0], t.Args[1]
	w := a.Sort.W
	switch t.Op {
	case OpEq:
		if val {
			if b.Op == OpConst {
				set(a, b.C, b.C)
			} else if a.Op == OpConst {
				set(b, a.C, a.C)
			}
		}
	case OpSLT, OpSLE:
		// signed facts: record them, and turn them into unsigned intervals once the sign is known
		m.learnSigned(t.Op, a, b, val)
	case OpULT:
		if val { // a < b
			if b.Op == OpConst && b.C > 0 {
				set(a, 0, b.C-1)
			}
			if a.Op == OpConst && a.C < mask(w) {
				set(b, a.C+1, mask(w))
			}
		} else { // a >= b
			if b.Op == OpConst {
				set(a, b.C, mask(w))
			}
			if a.Op == OpConst {
				set(b, 0, a.C)
			}
		}
	case OpULE:
		if val { // a <= b
			if b.Op == OpConst {
				set(a, 0, b.C)
			}
			if a.Op == OpConst {
				set(b, a.C, mask(w))
			}
		} else { // a > b
			if b.Op == OpConst && b.C < mask(w) {
				set(a, b.C+1, mask(w))
			}
			if a.Op == OpConst && a.C > 0 {
				set(b, 0, a.C-1)
			}
		}
	}
}

type srng struct{ lo, hi int64 }

// learnSigned records signed bounds of x from  x <s c / c <s x  facts; when the lower bound is
// non-negative the interval is also an unsigned one.
func (m *Machine) learnSigned(op Op, a, b *Term, val bool) {
	w := a.Sort.W
	minS, maxS := -int64(1)<<uint(w-1), int64(1)<<uint(w-1)-1
	if w == 64 {
		minS, maxS = -1<<63, 1<<63-1
	}
	upd := func(x *Term, lo, hi int64) {
		if x.Op == OpConst {
			return
		}
		b, ok := m.sbounds[x]
		if !ok {
			b = srng{minS, maxS}
		}
		if lo > b.lo {
			b.lo = lo
		}
		if hi < b.hi {
			b.hi = hi
		}
		m.sbounds[x] = b
		if b.lo >= 0 && b.hi >= b.lo {
			m.setBound(x, uint64(b.lo), uint64(b.hi))
		}
	}
	// normalise to  a <= b  (le) or  a < b  (lt), possibly negated
	lt := op == OpSLT
	if !val { // not(a < b) = b <= a ; not(a <= b) = b < a
		a, b = b, a
		lt = !lt
	}
	if b.Op == OpConst {
		c := sext(b.C, w)
		if lt {
			if c > minS {
				upd(a, minS, c-1)
			}
		} else {
			upd(a, minS, c)
		}
	}
	if a.Op == OpConst {
		c := sext(a.C, w)
		if lt {
			if c < maxS {
				upd(b, c+1, maxS)
			}
		} else {
			upd(b, c, maxS)
		}
	}
}

// rewriteCmp moves constants across additions when the interval analysis excludes
// overflow:  c2 <op> c1 + x   becomes   c2-c1 <op> x  (and symmetrically), which lets
// comparisons of int(f)+k with constants become floating-point comparisons of f.
func (m *Machine) rewriteCmp(c *Term) *Term {
	switch c.Op {
	case OpNot:
		r := m.rewriteCmp(c.Args[0])
		if r != c.Args[0] {
			return m.st.Not(r)
		}
		return c
	case OpSLT, OpSLE:
	default:
		return c
	}
	a, b := c.Args[0], c.Args[1]
	if a.Sort.K != KBV {
		return c
	}
	w := a.Sort.W
	half := uint64(1) << uint(w-2)
	strip := func(t *Term) (*Term, uint64, bool) {
		if t.Op == OpAdd {
			x, k := t.Args[0], t.Args[1]
			if x.Op == OpConst {
				x, k = k, x
			}
			if k.Op == OpConst && x.Op != OpConst && k.C < half {
				if r := m.rangeOf(x); r.hi < half {
					return x, k.C, true
				}
			}
		}
		return t, 0, false
	}
	if b.Op == OpConst && b.C < half {
		if x, k, ok := strip(a); ok {
			// x + k <op> c  <=>  x <op> c - k   (all quantities small and non-negative; c-k may be negative)
			nc := int64(b.C) - int64(k)
			return m.st.Bin(c.Op, x, m.st.BV(w, uint64(nc)))
		}
	}
	if a.Op == OpConst && a.C < half {
		if x, k, ok := strip(b); ok {
			nc := int64(a.C) - int64(k)
			return m.st.Bin(c.Op, m.st.BV(w, uint64(nc)), x)
		}
	}
	return c
}
