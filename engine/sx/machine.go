package sx

import (
	"fmt"
	"time"
	"sync"
	"os"
	"go/types"
	"sort"
	"strings"

	"golang.org/x/tools/go/ssa"
)

// Dec is one recorded decision of a path.
type Dec struct {
	Dir  bool
	Val  uint64 // constant used by a concretisation decision
	Conc bool
}

// Item is a frontier entry: a decision prefix plus a model that satisfies it.
type Item struct {
	Prefix []Dec
	Model  Model
}

// pathEnd is panicked to terminate the current path.
type pathEnd struct {
	kind   string // "infeasible", "incomplete", "done"
	reason string
}

// targetPanic is a Go-level panic of the program under test.
type targetPanic struct {
	v     value
	desc  string
	stack string
}

// Violation describes a failed assertion or an unexpected panic.
type Violation struct {
	Label   string
	Detail  string
	Model   Model
	Vx      []VxRec
	Decs    []Dec
	Stack   string
	Harness string
}

// VxRec records one vx* input of a path (for replay files).
type VxRec struct {
	Name string `json:"name"`
	Kind string `json:"kind"`
	Val  uint64 `json:"val"`
}

type undoRec struct {
	p   *value
	old value
	fn  func()
}

type Machine struct {
	prog     *ssa.Program
	st       *Store
	sol      *Solver
	sizes    types.Sizes
	globals  map[*ssa.Global]*value
	undo     []undoRec
	noUndo   bool
	initDone map[*ssa.Package]bool
	Trace    bool

	// configuration
	MaxSteps   int
	MaxDepth   int
	PanicIsBug bool
	HangIsViolation bool
	InitPkgs   map[string]bool // packages whose init runs (others skipped)

	// per path
	pc       []*Term
	pcSent   int
	model    Model
	memo     map[*Term]uint64
	prefix   []Dec
	decs     []Dec
	steps    int
	depth    int
	vxN      int
	vxLog    []vxEntry
	covers   map[string]bool
	lemmas   map[string]bool
	ufApps   []*Term
	ufSeen   map[*Term]bool
	ufSeeded int
	ufScanned map[*Term]bool
	known    map[*Term]bool
	bounds   map[*Term]rng
	sbounds  map[*Term]srng
	fbounds  map[string]frng
	fvarSort map[string]bool
	rmemo    map[*Term]rng
	frozen   map[*value]bool
	frozenM  map[*Map]bool
	freezeOn bool
	stubs    map[string]value
	mapOrder int
	mapSeed  int
	events   []Event
	curG     int
	nextG    int
	locks    map[*value]int
	callStack []*ssa.Function
	notes    []string
	rtErrType types.Type
	Emitted  []string
	markIncomplete bool
	InitPrefixes []string
	RecordEvents bool
	trackCell map[*value]bool
	trackMap map[*Map]bool
	trackRoots []value
	RaceQueries int
	clockReads int
	onceDone map[*value]bool
	pools    map[*value][]value
	wgCount map[*value]int

	// results
	Push       func(Item)
	Violations []Violation
	Stats      Stats
	FuncsHit   map[string]int
	Intrinsics map[string]int
	SiteStats  map[string]int
}

type vxEntry struct {
	name string
	kind string
	t    *Term
}

type Stats struct {
	Paths       int
	Completed   int
	Infeasible  int
	Incomplete  int
	Branches    int // symbolic decisions taken
	Steps       int64
	Asserts     int // assertion obligations discharged (unsat)
	AssertsFail int
	CegarIters  int
	KnownHits   int
	FPWitness   int
	CrossChecked int
	CacheHits   int
	Reasons     map[string]int
}

func NewMachine(prog *ssa.Program, solverKind string, timeoutMS int) (*Machine, error) {
	m := &Machine{prog: prog, st: NewStore(), globals: map[*ssa.Global]*value{}, initDone: map[*ssa.Package]bool{}}
	m.sizes = &types.StdSizes{WordSize: 8, MaxAlign: 8}
	m.MaxSteps = 5_000_000
	m.MaxDepth = 400
	m.PanicIsBug = true
	m.FuncsHit = map[string]int{}
	m.Intrinsics = map[string]int{}
	if os.Getenv("GOSX_SITES") != "" {
		m.SiteStats = map[string]int{}
	}
	m.Stats.Reasons = map[string]int{}
	m.registerUnicode()
	sol, err := NewSolver(solverKind, m.st, timeoutMS)
	if err != nil {
		return nil, err
	}
	m.sol = sol
	for _, pkg := range prog.AllPackages() {
		for _, mem := range pkg.Members {
			if g, ok := mem.(*ssa.Global); ok {
				cell := m.zero(deref(g.Type()))
				m.globals[g] = &cell
			}
		}
	}
	return m, nil
}

func (m *Machine) Close() { m.sol.Close() }

// ---------- memory ----------

func (m *Machine) setCell(p *value, v value) {
	if p == nil {
		m.goPanic("runtime error: invalid memory address or nil pointer dereference")
	}
	if m.freezeOn && m.frozen[p] {
		m.violation("write-to-frozen", "store into an object that existed before vxFreeze")
	}
	if m.RecordEvents {
		m.memEvent("wr", p)
	}
	if !m.noUndo {
		m.undo = append(m.undo, undoRec{p: p, old: *p})
	}
	*p = v
}

func (m *Machine) logUndo(fn func()) {
	if !m.noUndo {
		m.undo = append(m.undo, undoRec{fn: fn})
	}
}

func (m *Machine) rollback(mark int) {
	for i := len(m.undo) - 1; i >= mark; i-- {
		u := m.undo[i]
		if u.fn != nil {
			u.fn()
		} else {
			*u.p = u.old
		}
	}
	m.undo = m.undo[:mark]
}

// store writes v of type t through p, element-wise for aggregates so that
// interior pointers stay valid.
func (m *Machine) store(t types.Type, p value, v value) {
	switch p := p.(type) {
	case *value:
		m.storeCell(t, p, v)
	case *idxPtr:
		// concretise the index, then store normally
		k := m.concretize(p.idx)
		cell := &p.base[k]
		m.storeCell(t, m.followPath(cell, p.path), v)
	default:
		panic(fmt.Sprintf("store: bad pointer %T", p))
	}
}

func (m *Machine) followPath(p *value, path []int) *value {
	for _, f := range path {
		switch agg := (*p).(type) {
		case structure:
			p = &agg[f]
		case array:
			p = &agg[f]
		default:
			panic("followPath: not an aggregate")
		}
	}
	return p
}

func (m *Machine) storeCell(t types.Type, p *value, v value) {
	if p == nil {
		m.goPanic("runtime error: invalid memory address or nil pointer dereference")
	}
	switch tt := t.Underlying().(type) {
	case *types.Struct:
		sv := v.(structure)
		dst, ok := (*p).(structure)
		if !ok {
			m.setCell(p, copyVal(v))
			return
		}
		for i := range sv {
			m.storeCell(tt.Field(i).Type(), &dst[i], sv[i])
		}
	case *types.Array:
		av := v.(array)
		dst, ok := (*p).(array)
		if !ok {
			m.setCell(p, copyVal(v))
			return
		}
		for i := range av {
			m.storeCell(tt.Elem(), &dst[i], av[i])
		}
	default:
		m.setCell(p, v)
	}
}

func (m *Machine) load(t types.Type, p value) value {
	switch p := p.(type) {
	case *value:
		if p == nil {
			m.goPanic("runtime error: invalid memory address or nil pointer dereference")
		}
		if m.RecordEvents {
			m.memEvent("rd", p)
		}
		return copyVal(*p)
	case *idxPtr:
		return m.loadIdx(t, p)
	}
	panic(fmt.Sprintf("load: bad pointer %T", p))
}

// loadIdx reads through a symbolic index: a table lookup if every candidate
// leaf is a concrete scalar, an ite chain for short arrays, else concretise.
func (m *Machine) loadIdx(t types.Type, p *idxPtr) value {
	leaf := func(k int) value {
		var v value = p.base[k]
		for _, f := range p.path {
			switch agg := v.(type) {
			case structure:
				v = agg[f]
			case array:
				v = agg[f]
			}
		}
		return v
	}
	var build func(t types.Type, sel func(k int) value) (value, bool)
	build = func(t types.Type, sel func(k int) value) (value, bool) {
		switch tt := t.Underlying().(type) {
		case *types.Struct:
			out := make(structure, tt.NumFields())
			for i := range out {
				i := i
				v, ok := build(tt.Field(i).Type(), func(k int) value { return sel(k).(structure)[i] })
				if !ok {
					return nil, false
				}
				out[i] = v
			}
			return out, true
		case *types.Array:
			out := make(array, tt.Len())
			for i := range out {
				i := i
				v, ok := build(tt.Elem(), func(k int) value { return sel(k).(array)[i] })
				if !ok {
					return nil, false
				}
				out[i] = v
			}
			return out, true
		case *types.Basic:
			if tt.Info()&types.IsString != 0 {
				return nil, false
			}
			so, _ := m.sortOf(tt)
			allc := true
			n := len(p.base)
			for k := 0; k < n; k++ {
				if sel(k).(*Term).Op != OpConst {
					allc = false
					break
				}
			}
			if allc && so.K == KBV && n >= 8 {
				vals := make([]uint64, n)
				for k := range vals {
					vals[k] = sel(k).(*Term).C
				}
				tb := m.st.InternTable(vals, S64, so)
				return m.st.Lookup(tb, p.idx), true
			}
			if n > 128 {
				return nil, false
			}
			acc := sel(n - 1).(*Term)
			for k := n - 2; k >= 0; k-- {
				acc = m.st.Ite(m.st.Eq(p.idx, m.st.BV(64, uint64(k))), sel(k).(*Term), acc)
			}
			return acc, true
		}
		return nil, false
	}
	if v, ok := build(t, leaf); ok {
		return v
	}
	k := m.concretize(p.idx)
	return copyVal(leaf(int(k)))
}

// ---------- path control ----------

func (m *Machine) hasFloatVar(t *Term) bool {
	for _, v := range t.vars {
		if m.fvarSort[v] {
			return true
		}
	}
	return false
}

func (m *Machine) evalT(t *Term) uint64 {
	if t.Op == OpConst {
		return t.C
	}
	return m.st.EvalMemo(t, m.model, m.memo)
}

func (m *Machine) setModel(md Model) {
	m.model = md
	m.memo = map[*Term]uint64{}
}

func (m *Machine) flushPC() {
	if m.pcSent < len(m.pc) {
		m.sol.AfterFlush = true
	}
	for ; m.pcSent < len(m.pc); m.pcSent++ {
		m.sol.Assert(m.pc[m.pcSent])
	}
}

func (m *Machine) addPC(t *Term) {
	if t.IsTrue() {
		return
	}
	m.pc = append(m.pc, t)
	m.scanUF(t)
	m.learn(t, true)
}

// learn records conditions whose truth value follows syntactically from the path condition.
func (m *Machine) learn(t *Term, val bool) {
	if t.Op == OpConst {
		return
	}
	if _, ok := m.known[t]; ok {
		return
	}
	m.known[t] = val
	m.learnBounds(t, val)
	m.learnFP(t, val)
	switch {
	case t.Op == OpNot:
		m.learn(t.Args[0], !val)
	case t.Op == OpAnd && val:
		m.learn(t.Args[0], true)
		m.learn(t.Args[1], true)
	case t.Op == OpOr && !val:
		m.learn(t.Args[0], false)
		m.learn(t.Args[1], false)
	}
}

// scanUF collects UF applications occurring in t.
func (m *Machine) scanUF(t *Term) {
	if t.Op == OpConst || t.Op == OpVar {
		return
	}
	if m.ufScanned[t] {
		return
	}
	m.ufScanned[t] = true
	for _, a := range t.Args {
		m.scanUF(a)
	}
	if t.Op == OpUF && !m.ufSeen[t] {
		if d := m.st.UF[t.Name]; d != nil && d.Eager == "" {
			m.ufSeen[t] = true
			m.ufApps = append(m.ufApps, t)
		}
	}
}

// solve decides satisfiability of pc ∧ extra, refining lazily interpreted
// functions until the model evaluates natively to true.
func (m *Machine) solve(extra *Term) (Result, Model) {
	key, slice, svars := m.sliceKey(extra)
	if ce, ok := queryCache.Load(key); ok && !noCache {
		e := ce.(*cacheEntry)
		m.Stats.CacheHits++
		if e.res != Sat {
			return e.res, nil
		}
		// merge the cached assignment of the slice variables into the current model and re-validate natively
		md := make(Model, len(m.model)+len(e.vals))
		for k, v := range m.model {
			md[k] = v
		}
		for k, v := range e.vals {
			md[k] = v
		}
		memo := map[*Term]uint64{}
		ok := m.st.EvalMemo(extra, md, memo) != 0
		for _, c := range slice {
			if !ok {
				break
			}
			ok = m.st.EvalMemo(c, md, memo) != 0
		}
		if ok {
			return Sat, md
		}
		m.Stats.CacheHits--
	}
	var res Result
	var md Model
	if m.sol.Kind == "cvc5" && !hasUF(extra, map[*Term]bool{}) && !sliceHasUF(slice) {
		// floating-point queries: one-shot process on the independent slice only
		res, md = m.solveOneShot(extra, slice, svars)
	} else {
		res, md = m.solveUncached(extra)
	}
	if res != Unknown {
		e := &cacheEntry{res: res}
		if res == Sat {
			e.vals = map[string]uint64{}
			for _, v := range svars {
				e.vals[v] = md[v]
			}
		}
		queryCache.Store(key, e)
	}
	return res, md
}

func sliceHasUF(slice []*Term) bool {
	seen := map[*Term]bool{}
	for _, c := range slice {
		if hasUF(c, seen) {
			return true
		}
	}
	return false
}

func (m *Machine) solveOneShot(extra *Term, slice []*Term, svars []string) (Result, Model) {
	if os.Getenv("GOSX_FPLOG") != "" {
		fmt.Fprintf(os.Stderr, "FPQUERY %s | bounds %v | site %s\n", m.st.Dump(extra, m.model, m.memo, 8), m.fbounds, m.site())
	}
	terms := append(append([]*Term(nil), slice...), extra)
	var vars []*Term
	for _, v := range m.st.Vars {
		for _, n := range svars {
			if v.Name == n {
				vars = append(vars, v)
			}
		}
	}
	m.sol.Queries++
	t0 := time.Now()
	res, vals, err := OneShot("cvc5", m.st, terms, vars, m.sol.TimeoutMS)
	m.sol.Time += time.Since(t0)
	if err != nil {
		m.sol.Errors++
		m.note(err.Error())
		return Unknown, nil
	}
	switch res {
	case Sat:
		m.sol.SatN++
		md := make(Model, len(m.model)+len(vals))
		for k, v := range m.model {
			md[k] = v
		}
		for k, v := range vals {
			md[k] = v
		}
		// validate natively
		memo := map[*Term]uint64{}
		for _, c := range terms {
			if m.st.EvalMemo(c, md, memo) == 0 {
				m.note("one-shot model does not evaluate to true natively")
				return Unknown, nil
			}
		}
		return Sat, md
	case Unsat:
		m.sol.UnsatN++
	default:
		m.sol.UnknownN++
	}
	return res, nil
}

type cacheEntry struct {
	res  Result
	vals map[string]uint64
}

type cacheKey struct{ a, b uint64 }

var queryCache sync.Map
var noCache = os.Getenv("GOSX_NOCACHE") != ""
var crossCheck = os.Getenv("GOSX_FPCHECK") != ""

// ResetQueryCache empties the cross-path query cache (between harnesses).
func ResetQueryCache() { queryCache = sync.Map{} }

// sliceKey computes the constraint-independence slice of the path condition for a query:
// the constraints transitively sharing variables with extra.  The key is an order-independent
// structural hash of the slice plus the hash of extra.
func (m *Machine) sliceKey(extra *Term) (cacheKey, []*Term, []string) {
	vars := map[string]bool{}
	for _, v := range extra.vars {
		vars[v] = true
	}
	used := make([]bool, len(m.pc))
	var slice []*Term
	for changed := true; changed; {
		changed = false
		for i, c := range m.pc {
			if used[i] {
				continue
			}
			hit := false
			for _, v := range c.vars {
				if vars[v] {
					hit = true
					break
				}
			}
			if !hit {
				continue
			}
			used[i] = true
			slice = append(slice, c)
			for _, v := range c.vars {
				if !vars[v] {
					vars[v] = true
					changed = true
				}
			}
		}
	}
	var s1, s2 uint64
	for _, c := range slice {
		a, b := c.hashes()
		s1 += mix(a, 1)
		s2 += mix(b, 2)
	}
	e1, e2 := extra.hashes()
	var svars []string
	for v := range vars {
		svars = append(svars, v)
	}
	return cacheKey{mix(s1, e1), mix(s2, e2)}, slice, svars
}

func (m *Machine) solveUncached(extra *Term) (Result, Model) {
	if m.sol.Dead {
		// the solver process was killed on a timeout: start a new one and re-send this path's context
		if err := m.sol.Restart(); err != nil {
			m.note("solver restart failed: " + err.Error())
			return Unknown, nil
		}
		m.sol.Prelude()
		m.sol.Push()
		m.pcSent = 0
		m.lemmas = map[string]bool{}
		m.ufSeeded = 0
	}
	m.flushPC()
	m.scanUF(extra)
	// seed: pin every new application at the current model's argument value and at RuneError
	if len(m.ufApps) > m.ufSeeded {
		for _, app := range m.ufApps[m.ufSeeded:] {
			if d := m.st.UF[app.Name]; d.Coarse != nil {
				m.sol.AssertRaw(d.Coarse(m.sol.Name(app.Args[0]), m.sol.Name(app)))
			}
		}
		m.refineAt(m.model, m.memo)
		m.refineAt(nil, nil)
		m.ufSeeded = len(m.ufApps)
	}
	for iter := 0; iter < 400; iter++ {
		var res Result
		if m.sol.Kind == "cvc5" {
			m.sol.Push()
			m.sol.Assert(extra)
			res = m.sol.Check()
		} else {
			res = m.sol.CheckAssuming(extra)
		}
		if res != Sat {
			if m.sol.Kind == "cvc5" {
				m.sol.Pop()
			}
			if res == Unknown && m.sol.LastErr != "" {
				m.note("solver: " + m.sol.LastErr)
				m.sol.LastErr = ""
			}
			return res, nil
		}
		md, err := m.sol.Values(m.st.Vars)
		if m.sol.Kind == "cvc5" {
			m.sol.Pop()
		}
		if err != nil {
			m.note("get-value failed: " + err.Error())
			return Unknown, nil
		}
		memo := map[*Term]uint64{}
		ok := m.st.EvalMemo(extra, md, memo) != 0
		if ok {
			for _, c := range m.pc {
				if m.st.EvalMemo(c, md, memo) == 0 {
					ok = false
					break
				}
			}
		}
		// refine every lazily interpreted application at the model's argument value
		added := m.refineAt(md, memo)
		if ok {
			return Sat, md
		}
		m.Stats.CegarIters++
		if added == 0 {
			m.note("model does not evaluate to true natively and no refinement is possible")
			if os.Getenv("GOSX_DEBUG") != "" {
				for _, c := range append([]*Term{extra}, m.pc...) {
					if m.st.EvalMemo(c, md, memo) == 0 {
						fmt.Fprintf(os.Stderr, "MISMATCH term: %s\nmodel: %v\n", m.st.Dump(c, md, memo, 0), md)
						break
					}
				}
			}
			return Unknown, nil
		}
	}
	m.note("refinement limit reached")
	return Unknown, nil
}

// refineAt adds, for every lazily interpreted application, the lemma covering the
// argument value under md (md == nil: the value U+FFFD).  It returns the number of new lemmas.
func (m *Machine) refineAt(md Model, memo map[*Term]uint64) int {
	added := 0
	for _, app := range m.ufApps {
		d := m.st.UF[app.Name]
		arg := app.Args[0]
		var av uint64 = 0xFFFD
		if md != nil {
			av = m.st.EvalMemo(arg, md, memo)
		}
		if av <= 0xFF && d.EagerLo != "" {
			continue
		}
		lo, hi, par, base, mulx := d.Lemma(av)
		if lo <= 0xFF && d.EagerLo != "" {
			nl := uint64(0x100)
			if par >= 0 && (nl-lo)%2 == 1 {
				nl++
			}
			lo = nl
		}
		key := fmt.Sprintf("%s|%d|%d", app.Name, arg.id, lo)
		if arg.Op == OpConst {
			key = fmt.Sprintf("%s|c%d|%d", app.Name, arg.C, lo)
		}
		if m.lemmas[key] {
			continue
		}
		m.lemmas[key] = true
		m.sol.AssertRaw(m.lemmaText(app, lo, hi, par, base, mulx))
		added++
		if os.Getenv("GOSX_LEMMAS") != "" {
			fmt.Fprintf(os.Stderr, "LEMMA %s arg=%d av=%x [%x,%x] par=%d seed=%v\n", app.Name, arg.id, av, lo, hi, par, md == nil || &md == &m.model)
		}
	}
	return added
}

func (m *Machine) lemmaText(app *Term, lo, hi uint64, par int, base, mulx uint64) string {
	arg := app.Args[0]
	an := m.sol.Name(arg)
	fn := m.sol.Name(app)
	w := arg.Sort
	var conds []string
	conds = append(conds, fmt.Sprintf("(bvule %s %s)", constLit(w, lo), an))
	conds = append(conds, fmt.Sprintf("(bvule %s %s)", an, constLit(w, hi)))
	if par >= 0 {
		conds = append(conds, fmt.Sprintf("(= ((_ extract 0 0) (bvsub %s %s)) #b%d)", an, constLit(w, lo), par))
	}
	var rhs string
	out := app.Sort
	switch {
	case out.K == KBool:
		rhs = constLit(SBool, base)
		return fmt.Sprintf("(=> (and %s) (= %s %s))", strings.Join(conds, " "), fn, rhs)
	case mulx == 0:
		rhs = constLit(out, base)
	default:
		rhs = fmt.Sprintf("(bvadd %s %s)", an, constLit(out, base))
	}
	return fmt.Sprintf("(=> (and %s) (= %s %s))", strings.Join(conds, " "), fn, rhs)
}

func (m *Machine) note(s string) {
	if len(m.notes) < 50 {
		m.notes = append(m.notes, s)
	}
}

func (m *Machine) abort(kind, reason string) {
	panic(pathEnd{kind, reason})
}

func (m *Machine) incomplete(reason string) {
	panic(pathEnd{"incomplete", reason})
}

func (m *Machine) unsupported(what string) {
	panic(pathEnd{"incomplete", "unsupported: " + what})
}

// branch decides a symbolic condition, scheduling the other side.
func (m *Machine) branch(cond *Term) bool {
	if cond.Op == OpConst {
		return cond.C != 0
	}
	if v, ok := m.implied(cond, 0); ok {
		m.Stats.KnownHits++
		if crossCheck && m.hasFloatVar(cond) {
			// validation mode: the pre-filter's verdict must be confirmed by the solver
			other := cond
			if v {
				other = m.st.Not(cond)
			}
			if res, _ := m.solve(other); res == Sat {
				panic(fmt.Sprintf("FP pre-filter disagrees with the solver on %s", m.st.Dump(cond, m.model, m.memo, 0)))
			}
			m.Stats.CrossChecked++
		}
		return v
	}
	cond = m.rewriteCmp(cond)
	if cond.Op == OpConst {
		return cond.C != 0
	}
	k := len(m.decs)
	var dir bool
	if k < len(m.prefix) {
		dir = m.prefix[k].Dir
		if got := m.evalT(cond) != 0; got != dir {
			m.incomplete(fmt.Sprintf("replay divergence at decision %d", k))
		}
	} else {
		dir = m.evalT(cond) != 0
		other := cond
		if dir {
			other = m.st.Not(cond)
		}
		var res Result
		var md Model
		if wm := m.fpWitness(other); wm != nil {
			res, md = Sat, wm
			m.Stats.FPWitness++
		} else {
			res, md = m.solve(other)
		}
		if m.SiteStats != nil {
			m.SiteStats[m.site()+" "+res.String()]++
		}
		switch res {
		case Sat:
			pre := make([]Dec, k+1)
			copy(pre, m.decs)
			pre[k] = Dec{Dir: !dir}
			m.Push(Item{pre, md})
		case Unknown:
			m.Stats.Reasons["solver-unknown-branch"]++
			m.note("solver unknown on a branch; other side not explored")
			m.markIncomplete = true
		}
	}
	m.decs = append(m.decs, Dec{Dir: dir})
	m.Stats.Branches++
	if dir {
		m.addPC(cond)
	} else {
		m.addPC(m.st.Not(cond))
	}
	return dir
}

// assume restricts the path to cond (no other side is scheduled).
func (m *Machine) assume(cond *Term) {
	if cond.IsTrue() {
		return
	}
	if cond.IsFalse() {
		m.abort("infeasible", "assume(false)")
	}
	if v, ok := m.implied(cond, 0); ok && v && m.evalT(cond) != 0 {
		m.addPC(cond) // still part of the path condition the solver sees
		return
	}
	if m.evalT(cond) == 0 {
		res, md := m.solve(cond)
		switch res {
		case Unsat:
			m.abort("infeasible", "assumption unsatisfiable")
		case Unknown:
			m.incomplete("solver unknown on an assumption")
		}
		m.setModel(md)
	}
	m.addPC(cond)
}

// concretize forks over the feasible values of t and returns the value on this path.
func (m *Machine) concretize(t *Term) uint64 {
	if t.Op == OpConst {
		return t.C
	}
	if t.Sort.K == KBV && !noImplied {
		if r := m.rangeOf(t); r.single() {
			m.Stats.KnownHits++
			if crossCheck && m.hasFloatVar(t) {
				if res, _ := m.solve(m.st.Not(m.st.Eq(t, m.st.Const(t.Sort, r.lo)))); res == Sat {
					panic(fmt.Sprintf("interval pre-filter disagrees with the solver on the value of %s", m.st.Dump(t, m.model, m.memo, 0)))
				}
				m.Stats.CrossChecked++
			}
			return r.lo // the value is implied by the path condition
		}
	}
	for n := 0; ; n++ {
		if n > 4096 {
			m.incomplete("concretisation fan-out exceeds 4096")
		}
		k := len(m.decs)
		var v uint64
		if k < len(m.prefix) {
			v = m.prefix[k].Val
			dir := m.prefix[k].Dir
			eq := m.st.Eq(t, m.st.Const(t.Sort, v))
			m.decs = append(m.decs, Dec{Dir: dir, Val: v, Conc: true})
			m.Stats.Branches++
			if dir {
				m.addPC(eq)
				return v
			}
			m.addPC(m.st.Not(eq))
			continue
		}
		v = m.evalT(t)
		eq := m.st.Eq(t, m.st.Const(t.Sort, v))
		res, md := m.solve(m.st.Not(eq))
		switch res {
		case Sat:
			pre := make([]Dec, k+1)
			copy(pre, m.decs)
			pre[k] = Dec{Dir: false, Val: v, Conc: true}
			m.Push(Item{pre, md})
		case Unknown:
			m.Stats.Reasons["solver-unknown-concretize"]++
			m.markIncomplete = true
		}
		m.decs = append(m.decs, Dec{Dir: true, Val: v, Conc: true})
		m.Stats.Branches++
		m.addPC(eq)
		return v
	}
}

func (m *Machine) violation(label, detail string) {
	m.recordViolation(label, detail, m.model)
	panic(pathEnd{"violation", label})
}

func (m *Machine) recordViolation(label, detail string, md Model) {
	v := Violation{Label: label, Detail: detail, Model: md, Decs: append([]Dec(nil), m.decs...), Stack: m.stackString()}
	for _, e := range m.vxLog {
		val := m.st.Eval(e.t, md)
		v.Vx = append(v.Vx, VxRec{e.name, e.kind, val})
	}
	m.Violations = append(m.Violations, v)
	m.Stats.AssertsFail++
}

func (m *Machine) stackString() string {
	var sb strings.Builder
	n := len(m.callStack)
	for i := n - 1; i >= 0 && i >= n-12; i-- {
		sb.WriteString(m.callStack[i].String())
		sb.WriteString(" < ")
	}
	return sb.String()
}

// assert checks an obligation under the current path condition.
func (m *Machine) assert(label string, cond *Term) {
	if cond.IsTrue() {
		m.Stats.Asserts++
		return
	}
	if cond.IsFalse() || m.evalT(cond) == 0 {
		m.recordViolation(label, "assertion fails", m.model)
		m.abort("violation", label)
	}
	if v, ok := m.implied(cond, 0); ok && v {
		m.Stats.Asserts++
		m.Stats.KnownHits++
		return
	}
	var res Result
	var md Model
	if wm := m.fpWitness(m.st.Not(cond)); wm != nil {
		res, md = Sat, wm
	} else {
		res, md = m.solve(m.st.Not(cond))
	}
	switch res {
	case Sat:
		m.recordViolation(label, "assertion fails", md)
		// continue on the side where it holds
	case Unknown:
		m.Stats.Reasons["solver-unknown-assert"]++
		m.markIncomplete = true
	default:
		m.Stats.Asserts++
	}
	m.addPC(cond)
}

// RunPath executes entry once under item.
func (m *Machine) RunPath(entry *ssa.Function, it Item) (kind, reason string) {
	mark := len(m.undo)
	m.st.ResetPath()
	m.pc = m.pc[:0]
	m.pcSent = 0
	m.prefix = it.Prefix
	m.decs = m.decs[:0]
	m.steps = 0
	m.depth = 0
	m.vxN = 0
	m.vxLog = m.vxLog[:0]
	m.covers = map[string]bool{}
	m.lemmas = map[string]bool{}
	m.ufApps = m.ufApps[:0]
	m.ufSeen = map[*Term]bool{}
	m.ufSeeded = 0
	m.ufScanned = map[*Term]bool{}
	m.known = map[*Term]bool{}
	m.bounds = map[*Term]rng{}
	m.sbounds = map[*Term]srng{}
	m.fbounds = map[string]frng{}
	m.fvarSort = map[string]bool{}
	m.rmemo = map[*Term]rng{}
	m.frozen = nil
	m.frozenM = nil
	m.freezeOn = false
	m.stubs = map[string]value{}
	m.mapOrder = 0
	m.mapSeed = -1
	m.events = m.events[:0]
	m.curG = 0
	m.nextG = 1
	m.locks = map[*value]int{}
	m.callStack = m.callStack[:0]
	m.markIncomplete = false
	m.Emitted = nil
	m.RecordEvents = false
	m.trackCell = nil
	m.trackMap = nil
	m.trackRoots = nil
	m.clockReads = 0
	md := it.Model
	if md == nil {
		md = Model{}
	}
	m.setModel(md)
	m.sol.Prelude()
	m.sol.Push()
	m.Stats.Paths++
	kind, reason = "done", ""
	func() {
		defer func() {
			if r := recover(); r != nil {
				switch r := r.(type) {
				case pathEnd:
					kind, reason = r.kind, r.reason
				case targetPanic:
					if m.PanicIsBug {
						m.recordViolation("panic", r.desc+" @ "+r.stack, m.model)
						kind, reason = "violation", "panic: "+r.desc
					} else {
						kind, reason = "done", "panic: "+r.desc
					}
				default:
					panic(r)
				}
			}
		}()
		m.call(entry, nil)
	}()
	if kind == "done" && m.markIncomplete {
		kind, reason = "incomplete", "solver returned unknown on this path"
	}
	m.Stats.Steps += int64(m.steps)
	switch kind {
	case "done", "violation":
		m.Stats.Completed++
	case "infeasible":
		m.Stats.Infeasible++
	case "incomplete":
		m.Stats.Incomplete++
		m.Stats.Reasons[reason]++
	}
	if m.sol.Dead {
		if err := m.sol.Restart(); err == nil {
			m.sol.Prelude()
		}
	} else {
		m.sol.Pop()
	}
	m.rollback(mark)
	return
}

// Covers returns the cover labels hit on the last path.
func (m *Machine) Covers() []string {
	var out []string
	for k := range m.covers {
		out = append(out, k)
	}
	sort.Strings(out)
	return out
}

func (m *Machine) Notes() []string { return m.notes }
func (m *Machine) SolverStats() (q, sat, unsat, unk, errs int, secs float64) {
	return m.sol.Queries, m.sol.SatN, m.sol.UnsatN, m.sol.UnknownN, m.sol.Errors, m.sol.Time.Seconds()
}
