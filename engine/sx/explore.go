package sx

import (
	"fmt"
	"os"
	"sort"
	"strings"
	"sync"
	"time"

	"golang.org/x/tools/go/packages"
	"golang.org/x/tools/go/ssa"
	"golang.org/x/tools/go/ssa/ssautil"
)

// Program is a loaded SSA program plus the package under test.
type Program struct {
	Prog *ssa.Program
	Pkg  *ssa.Package
	Pkgs []*packages.Package
}

// Load builds SSA for pattern in dir with the given overlay (virtual path -> contents) and build tags.
func Load(dir, pattern string, overlay map[string][]byte, tags string, extraFlags []string) (*Program, error) {
	flags := append([]string{"-tags=" + tags}, extraFlags...)
	cfg := &packages.Config{
		Mode:       packages.LoadAllSyntax,
		Dir:        dir,
		BuildFlags: flags,
		Overlay:    overlay,
		Env:        append(os.Environ(), "GOFLAGS=-mod=mod", "GOPROXY=off", "GOSUMDB=off", "GOTOOLCHAIN=local"),
	}
	pkgs, err := packages.Load(cfg, pattern)
	if err != nil {
		return nil, err
	}
	if packages.PrintErrors(pkgs) > 0 {
		return nil, fmt.Errorf("package load errors")
	}
	prog, spkgs := ssautil.AllPackages(pkgs, ssa.InstantiateGenerics)
	prog.Build()
	if len(spkgs) == 0 || spkgs[0] == nil {
		return nil, fmt.Errorf("no SSA package")
	}
	return &Program{Prog: prog, Pkg: spkgs[0], Pkgs: pkgs}, nil
}

type Options struct {
	Solver       string
	TimeoutMS    int
	Workers      int
	MaxPaths     int
	MaxSteps     int
	Deadline     time.Duration
	MaxViolations int
	Trace        bool
	InitPkgs     []string
	SolverLog    string
	PanicOK      bool
	HangIsViolation bool
}

// Report is the outcome of exploring one harness.
type Report struct {
	Harness     string
	Paths       int
	Completed   int
	Infeasible  int
	Incomplete  int
	Branches    int
	Steps       int64
	AssertsOK   int
	Violations  []Violation
	Covers      map[string]int
	Reasons     map[string]int
	Notes       []string
	Funcs       map[string]int
	Intrinsics  map[string]int
	Queries     int
	QSat        int
	QUnsat      int
	QUnknown    int
	QErrors     int
	SolverSecs  float64
	CegarIters  int
	CacheHits   int
	KnownHits   int
	FPWitness   int
	CrossChecked int
	WallSecs    float64
	Exhaustive  bool
	FrontierLeft int
	Samples     []PathSample
	EngineError string
	Emitted     []string
}

type PathSample struct {
	Inputs []VxRec `json:"inputs"`
	Decisions int  `json:"decisions"`
	Outcome string `json:"outcome"`
}

type frontier struct {
	mu       sync.Mutex
	cond     *sync.Cond
	items    []Item
	inflight int
	stop     bool
}

func (f *frontier) push(it Item) {
	f.mu.Lock()
	f.items = append(f.items, it)
	f.mu.Unlock()
	f.cond.Signal()
}

func (f *frontier) pop() (Item, bool) {
	f.mu.Lock()
	defer f.mu.Unlock()
	for {
		if f.stop {
			return Item{}, false
		}
		if n := len(f.items); n > 0 {
			it := f.items[n-1]
			f.items = f.items[:n-1]
			f.inflight++
			return it, true
		}
		if f.inflight == 0 {
			f.cond.Broadcast()
			return Item{}, false
		}
		f.cond.Wait()
	}
}

func (f *frontier) done() {
	f.mu.Lock()
	f.inflight--
	if f.inflight == 0 && len(f.items) == 0 {
		f.cond.Broadcast()
	}
	f.mu.Unlock()
}

// Explore runs the named harness function of p.Pkg to exhaustion (or to the limits in opt).
func Explore(p *Program, harness string, opt Options) *Report {
	t0 := time.Now()
	ResetQueryCache()
	rep := &Report{Harness: harness, Covers: map[string]int{}, Reasons: map[string]int{}, Funcs: map[string]int{}, Intrinsics: map[string]int{}}
	entry := p.Pkg.Func(harness)
	if entry == nil {
		rep.EngineError = "no such harness function: " + harness
		return rep
	}
	if opt.Workers <= 0 {
		opt.Workers = 1
	}
	if opt.Solver == "" {
		opt.Solver = "z3-new"
	}
	if opt.TimeoutMS == 0 {
		opt.TimeoutMS = 20000
	}
	fr := &frontier{}
	fr.cond = sync.NewCond(&fr.mu)
	fr.items = []Item{{}}
	var mu sync.Mutex
	var wg sync.WaitGroup
	deadline := time.Time{}
	if opt.Deadline > 0 {
		deadline = t0.Add(opt.Deadline)
	}
	totalPaths := 0
	for w := 0; w < opt.Workers; w++ {
		wg.Add(1)
		go func(w int) {
			defer wg.Done()
			m, err := NewMachine(p.Prog, opt.Solver, opt.TimeoutMS)
			if err != nil {
				mu.Lock()
				rep.EngineError = err.Error()
				mu.Unlock()
				return
			}
			defer m.Close()
			defer func() {
				if r := recover(); r != nil {
					mu.Lock()
					rep.EngineError = fmt.Sprintf("engine panic: %v\n%s", r, m.stackString())
					mu.Unlock()
					fr.mu.Lock()
					fr.stop = true
					fr.mu.Unlock()
					fr.cond.Broadcast()
					if os.Getenv("GOSX_DEBUG") != "" {
						panic(r)
					}
				}
			}()
			if opt.SolverLog != "" && w == 0 {
				f, _ := os.Create(opt.SolverLog)
				m.sol.Log = f
				defer f.Close()
			}
			m.Trace = opt.Trace
			m.PanicIsBug = !opt.PanicOK
			m.HangIsViolation = opt.HangIsViolation
			if opt.MaxSteps > 0 {
				m.MaxSteps = opt.MaxSteps
			}
			m.InitPkgs = map[string]bool{p.Pkg.Pkg.Path(): true}
			for _, ip := range defaultInitPkgs {
				m.InitPkgs[ip] = true
			}
			for _, ip := range opt.InitPkgs {
				m.InitPkgs[ip] = true
			}
			m.InitPrefixes = []string{"github.com/google/licenseclassifier"}
			if err := m.RunInit(p.Pkg); err != nil {
				mu.Lock()
				rep.EngineError = "init: " + err.Error()
				mu.Unlock()
				fr.mu.Lock()
				fr.stop = true
				fr.mu.Unlock()
				fr.cond.Broadcast()
				return
			}
			m.Push = fr.push
			for {
				it, ok := fr.pop()
				if !ok {
					break
				}
				nviol := len(m.Violations)
				kind, reason := m.RunPath(entry, it)
				mu.Lock()
				totalPaths++
				if len(m.Emitted) > 0 && len(rep.Emitted) == 0 {
					rep.Emitted = append([]string(nil), m.Emitted...)
				}
				for _, c := range m.Covers() {
					rep.Covers[c]++
				}
				if len(rep.Samples) < 5 || (kind == "violation" && len(rep.Samples) < 12) {
					var ins []VxRec
					for _, e := range m.vxLog {
						ins = append(ins, VxRec{e.name, e.kind, m.st.Eval(e.t, m.model)})
					}
					oc := kind
					if reason != "" {
						oc += ": " + reason
					}
					rep.Samples = append(rep.Samples, PathSample{ins, len(m.decs), oc})
				}
				stop := (opt.MaxPaths > 0 && totalPaths >= opt.MaxPaths) ||
					(!deadline.IsZero() && time.Now().After(deadline)) ||
					(opt.MaxViolations > 0 && len(rep.Violations)+len(m.Violations) >= opt.MaxViolations && len(m.Violations) > nviol)
				mu.Unlock()
				_ = reason
				fr.done()
				if stop {
					fr.mu.Lock()
					fr.stop = true
					fr.mu.Unlock()
					fr.cond.Broadcast()
					break
				}
			}
			mu.Lock()
			rep.Paths += m.Stats.Paths
			rep.Completed += m.Stats.Completed
			rep.Infeasible += m.Stats.Infeasible
			rep.Incomplete += m.Stats.Incomplete
			rep.Branches += m.Stats.Branches
			rep.Steps += m.Stats.Steps
			rep.AssertsOK += m.Stats.Asserts
			rep.CegarIters += m.Stats.CegarIters
			rep.CacheHits += m.Stats.CacheHits
			rep.KnownHits += m.Stats.KnownHits
			rep.FPWitness += m.Stats.FPWitness
			rep.CrossChecked += m.Stats.CrossChecked
			for _, v := range m.Violations {
				v.Harness = harness
				rep.Violations = append(rep.Violations, v)
			}
			for k, v := range m.Stats.Reasons {
				rep.Reasons[k] += v
			}
			for k, v := range m.FuncsHit {
				rep.Funcs[k] += v
			}
			for k, v := range m.Intrinsics {
				rep.Intrinsics[k] += v
			}
			rep.Notes = append(rep.Notes, m.Notes()...)
			for k, v := range m.SiteStats {
				rep.Intrinsics["site: "+k] += v
			}
			q, s, u, k, e, secs := m.SolverStats()
			rep.Queries += q
			rep.QSat += s
			rep.QUnsat += u
			rep.QUnknown += k
			rep.QErrors += e
			rep.SolverSecs += secs
			fmt.Fprintf(os.Stderr, "worker %d: check %.1fs (after-flush %.1fs in %d) values %.1fs\n", w, secs, m.sol.FlushTime.Seconds(), m.sol.FlushN, m.sol.ValTime.Seconds())
			mu.Unlock()
		}(w)
	}
	wg.Wait()
	rep.FrontierLeft = len(fr.items)
	rep.WallSecs = time.Since(t0).Seconds()
	rep.Exhaustive = rep.EngineError == "" && rep.FrontierLeft == 0 && rep.Incomplete == 0 && rep.QErrors == 0 && !fr.stop
	sort.Strings(rep.Notes)
	rep.Notes = dedup(rep.Notes)
	return rep
}

func dedup(s []string) []string {
	var out []string
	for i, x := range s {
		if i == 0 || x != s[i-1] {
			out = append(out, x)
		}
	}
	return out
}

// RunInit runs the package initialisers once, outside any path (no undo logging).
func (m *Machine) RunInit(pkg *ssa.Package) (err error) {
	m.noUndo = true
	defer func() { m.noUndo = false }()
	m.st.ResetPath()
	m.setModel(Model{})
	m.covers = map[string]bool{}
	m.lemmas = map[string]bool{}
	m.ufSeen = map[*Term]bool{}
	m.ufScanned = map[*Term]bool{}
	m.known = map[*Term]bool{}
	m.bounds = map[*Term]rng{}
	m.sbounds = map[*Term]srng{}
	m.fbounds = map[string]frng{}
	m.fvarSort = map[string]bool{}
	m.rmemo = map[*Term]rng{}
	m.stubs = map[string]value{}
	m.locks = map[*value]int{}
	m.onceDone = map[*value]bool{}
	m.pools = map[*value][]value{}
	m.wgCount = map[*value]int{}
	m.Push = func(Item) {}
	saveSteps := m.MaxSteps
	m.MaxSteps = 200_000_000
	defer func() {
		m.MaxSteps = saveSteps
		if r := recover(); r != nil {
			switch r := r.(type) {
			case pathEnd:
				err = fmt.Errorf("%s: %s [%s]", r.kind, r.reason, m.stackString())
			case targetPanic:
				err = fmt.Errorf("panic during init: %s @ %s", r.desc, r.stack)
			default:
				panic(r)
			}
		}
	}()
	m.sol.Prelude()
	m.sol.Push()
	m.call(pkg.Func("init"), nil)
	if f := pkg.Func("vxInit"); f != nil {
		m.call(f, nil)
	}
	m.sol.Pop()
	m.steps = 0
	return nil
}

// Summary renders a short human-readable report.
func (r *Report) Summary() string {
	var sb strings.Builder
	fmt.Fprintf(&sb, "harness %s: paths=%d completed=%d infeasible=%d incomplete=%d branches=%d asserts_ok=%d violations=%d exhaustive=%v wall=%.1fs solver=%.1fs queries=%d (sat %d unsat %d unknown %d err %d) cegar=%d cache_hits=%d implied=%d fp_witness=%d cross_checked=%d\n",
		r.Harness, r.Paths, r.Completed, r.Infeasible, r.Incomplete, r.Branches, r.AssertsOK, len(r.Violations), r.Exhaustive, r.WallSecs, r.SolverSecs, r.Queries, r.QSat, r.QUnsat, r.QUnknown, r.QErrors, r.CegarIters, r.CacheHits, r.KnownHits, r.FPWitness, r.CrossChecked)
	if r.EngineError != "" {
		fmt.Fprintf(&sb, "  ENGINE ERROR: %s\n", r.EngineError)
	}
	for k, v := range r.Reasons {
		fmt.Fprintf(&sb, "  incomplete: %s x%d\n", k, v)
	}
	for _, n := range r.Notes {
		fmt.Fprintf(&sb, "  note: %s\n", n)
	}
	for k, v := range r.Covers {
		fmt.Fprintf(&sb, "  cover %s: %d\n", k, v)
	}
	for i, v := range r.Violations {
		if i >= 5 {
			fmt.Fprintf(&sb, "  ... %d more violations\n", len(r.Violations)-5)
			break
		}
		fmt.Fprintf(&sb, "  VIOLATION %s: %s inputs=%v\n    stack: %s\n", v.Label, v.Detail, v.Vx, v.Stack)
	}
	return sb.String()
}
