package sx

import (
	"math"
)

// Floating-point interval reasoning used before a solver query.  Enclosures are computed by
// interval arithmetic on the endpoints (sound under round-to-nearest because rounding is
// monotone); the interval of an input variable is refined from the path condition by
// interval constraint propagation (shaving slices on which a constraint certainly fails).
// Like the bit-vector pre-filter it only answers when certain; everything else goes to cvc5.

type frng struct {
	lo, hi float64
	ok     bool
}

func fconst(v float64) frng { return frng{v, v, !math.IsNaN(v)} }

// fEnclosure returns an interval containing every value term t can take when each float
// variable v ranges over vb(v).
func (m *Machine) fEnclosure(t *Term, vb func(name string) (frng, bool)) frng {
	if t.Sort.K != KFP {
		return frng{}
	}
	switch t.Op {
	case OpConst:
		return fconst(fval(t.Sort, t.C))
	case OpVar:
		if b, ok := vb(t.Name); ok {
			return b
		}
		return frng{math.Inf(-1), math.Inf(1), false}
	case OpFAdd, OpFSub, OpFMul, OpFDiv:
		a, b := m.fEnclosure(t.Args[0], vb), m.fEnclosure(t.Args[1], vb)
		if !a.ok || !b.ok {
			return frng{}
		}
		if t.Op == OpFDiv && b.lo <= 0 && b.hi >= 0 {
			return frng{}
		}
		f := func(x, y float64) float64 {
			var r float64
			switch t.Op {
			case OpFAdd:
				r = x + y
			case OpFSub:
				r = x - y
			case OpFMul:
				r = x * y
			default:
				r = x / y
			}
			if t.Sort.W == 32 {
				r = float64(float32(r))
			}
			return r
		}
		c := [4]float64{f(a.lo, b.lo), f(a.lo, b.hi), f(a.hi, b.lo), f(a.hi, b.hi)}
		lo, hi := c[0], c[0]
		for _, v := range c[1:] {
			if math.IsNaN(v) {
				return frng{}
			}
			lo, hi = math.Min(lo, v), math.Max(hi, v)
		}
		if math.IsNaN(lo) || math.IsInf(lo, 0) || math.IsInf(hi, 0) {
			return frng{}
		}
		return frng{lo, hi, true}
	case OpFNeg:
		a := m.fEnclosure(t.Args[0], vb)
		return frng{-a.hi, -a.lo, a.ok}
	case OpFAbs:
		a := m.fEnclosure(t.Args[0], vb)
		if !a.ok {
			return a
		}
		if a.lo >= 0 {
			return a
		}
		if a.hi <= 0 {
			return frng{-a.hi, -a.lo, true}
		}
		return frng{0, math.Max(-a.lo, a.hi), true}
	case OpFRound:
		a := m.fEnclosure(t.Args[0], vb)
		if !a.ok {
			return a
		}
		r := func(f float64) float64 {
			switch t.I1 {
			case 0:
				return math.Round(f)
			case 1:
				return math.Trunc(f)
			case 2:
				return math.Floor(f)
			case 3:
				return math.Ceil(f)
			}
			return math.RoundToEven(f)
		}
		return frng{r(a.lo), r(a.hi), true}
	case OpFToF:
		a := m.fEnclosure(t.Args[0], vb)
		if !a.ok {
			return a
		}
		if t.Sort.W == 32 {
			return frng{float64(float32(a.lo)), float64(float32(a.hi)), true}
		}
		return a
	case OpSToF, OpUToF:
		// integer operand: use the bit-vector interval analysis when the value is known non-negative
		r := m.rangeOf(t.Args[0])
		w := t.Args[0].Sort.W
		if t.Op == OpSToF && r.hi >= uint64(1)<<uint(w-1) {
			// may be negative: only constants are handled
			if t.Args[0].Op == OpConst {
				return fconst(float64(sext(t.Args[0].C, w)))
			}
			return frng{}
		}
		return frng{float64(r.lo), float64(r.hi), true}
	}
	return frng{}
}

// fCompare decides a floating-point comparison from enclosures, if they are separated.
func fDecide(op Op, a, b frng) (bool, bool) {
	if !a.ok || !b.ok {
		return false, false
	}
	switch op {
	case OpFLT:
		if a.hi < b.lo {
			return true, true
		}
		if a.lo >= b.hi {
			return false, true
		}
	case OpFLE:
		if a.hi <= b.lo {
			return true, true
		}
		if a.lo > b.hi {
			return false, true
		}
	case OpFEQ:
		if a.hi < b.lo || b.hi < a.lo {
			return false, true
		}
		if a.lo == a.hi && b.lo == b.hi && a.lo == b.lo {
			return true, true
		}
	}
	return false, false
}

// fvars returns the float variables of t (nil if it also depends on other variables).
func (m *Machine) floatVarsOnly(t *Term) ([]string, bool) {
	for _, v := range t.vars {
		if _, ok := m.fvarSort[v]; !ok {
			return nil, false
		}
	}
	return t.vars, true
}

func (m *Machine) fbound(name string) (frng, bool) {
	b, ok := m.fbounds[name]
	return b, ok
}

// impliedFP decides an FP comparison (or a comparison of int(f) with a constant that the term
// layer has already rewritten into one) from the current variable intervals.
func (m *Machine) impliedFP(c *Term) (bool, bool) {
	switch c.Op {
	case OpFLT, OpFLE, OpFEQ:
		if _, ok := m.floatVarsOnly(c); !ok {
			return false, false
		}
		a := m.fEnclosure(c.Args[0], m.fbound)
		b := m.fEnclosure(c.Args[1], m.fbound)
		return fDecide(c.Op, a, b)
	}
	return false, false
}

// certainlyFails reports whether the constraint (c == val) is false for every value of
// variable name in [lo,hi] (other variables at their current intervals).
func (m *Machine) certainlyFails(c *Term, val bool, name string, lo, hi float64) bool {
	vb := func(n string) (frng, bool) {
		if n == name {
			return frng{lo, hi, true}, true
		}
		return m.fbound(n)
	}
	a := m.fEnclosure(c.Args[0], vb)
	b := m.fEnclosure(c.Args[1], vb)
	v, ok := fDecide(c.Op, a, b)
	return ok && v != val
}

// nextUp / nextDown in the total order of finite float64 values.
func fbitsOrd(f float64) int64 {
	b := int64(math.Float64bits(f))
	if b < 0 {
		return math.MinInt64 - b
	}
	return b
}

func fromOrd(o int64) float64 {
	if o < 0 {
		return math.Float64frombits(uint64(math.MinInt64 - o))
	}
	return math.Float64frombits(uint64(o))
}

// learnFP refines the interval of the single float variable of an asserted comparison by
// shaving: the largest suffix (prefix) of the interval on which the constraint certainly
// fails is removed, found by bisection over the float ordering.
func (m *Machine) learnFP(c *Term, val bool) {
	switch c.Op {
	case OpFLT, OpFLE, OpFEQ:
	default:
		return
	}
	vars, ok := m.floatVarsOnly(c)
	if !ok || len(vars) != 1 {
		return
	}
	name := vars[0]
	b, ok := m.fbounds[name]
	if !ok || !b.ok {
		return
	}
	lo, hi := fbitsOrd(b.lo), fbitsOrd(b.hi)
	if lo > hi {
		return
	}
	// shave from the top: find the smallest s such that the constraint certainly fails on [s,hi]
	if m.certainlyFails(c, val, name, fromOrd(hi), fromOrd(hi)) {
		l, h := lo, hi // invariant: fails on [h,hi]; unknown on [l,...]
		for l < h {
			mid := l + (h-l)/2
			if m.certainlyFails(c, val, name, fromOrd(mid), fromOrd(hi)) {
				h = mid
			} else {
				l = mid + 1
			}
		}
		hi = h - 1
	}
	if lo <= hi && m.certainlyFails(c, val, name, fromOrd(lo), fromOrd(lo)) {
		l, h := lo, hi // fails on [lo,l]
		for l < h {
			mid := l + (h-l+1)/2
			if m.certainlyFails(c, val, name, fromOrd(lo), fromOrd(mid)) {
				l = mid
			} else {
				h = mid - 1
			}
		}
		lo = l + 1
	}
	if lo > hi {
		// empty: the path is infeasible; leave the bounds alone and let the solver say so
		return
	}
	nb := frng{fromOrd(lo), fromOrd(hi), true}
	if nb != b {
		m.fbounds[name] = nb
		if len(m.rmemo) > 0 {
			m.rmemo = map[*Term]rng{}
		}
	}
}

// fpWitness looks for a model of pc /\ cond among the endpoints of the float variables'
// intervals (current model with one float variable moved to an end of its interval); every
// candidate is validated by native evaluation of the whole path condition.
func (m *Machine) fpWitness(cond *Term) Model {
	vars, ok := m.floatVarsOnly(cond)
	if !ok || len(vars) != 1 {
		return nil
	}
	name := vars[0]
	b, ok := m.fbounds[name]
	if !ok || !b.ok {
		return nil
	}
	for _, cand := range []float64{b.lo, b.hi} {
		md := make(Model, len(m.model)+1)
		for k, v := range m.model {
			md[k] = v
		}
		md[name] = math.Float64bits(cand)
		memo := map[*Term]uint64{}
		if m.st.EvalMemo(cond, md, memo) == 0 {
			continue
		}
		good := true
		for _, c := range m.pc {
			if m.st.EvalMemo(c, md, memo) == 0 {
				good = false
				break
			}
		}
		if good {
			return md
		}
	}
	return nil
}
