package sx

import (
	"fmt"
	"unicode/utf8"
	"go/token"
	"go/types"
	"reflect"

	"golang.org/x/tools/go/ssa"
)

func (m *Machine) unop(instr *ssa.UnOp, x value) value {
	switch instr.Op {
	case token.ARROW:
		return m.chanRecv(x.(*Chan), instr.CommaOk)
	case token.SUB:
		t := x.(*Term)
		if t.Sort.K == KFP {
			return m.st.Un(OpFNeg, t)
		}
		return m.st.Un(OpNeg, t)
	case token.MUL:
		return m.load(deref(instr.X.Type()), x)
	case token.NOT:
		return m.st.Not(x.(*Term))
	case token.XOR:
		return m.st.Un(OpBNot, x.(*Term))
	}
	panic(fmt.Sprintf("invalid unary op %s", instr.Op))
}

func (m *Machine) binop(op token.Token, t types.Type, x, y value) value {
	switch op {
	case token.EQL:
		return m.equals(t, x, y)
	case token.NEQ:
		return m.st.Not(m.equals(t, x, y))
	}
	if isString(t) {
		switch op {
		case token.ADD:
			return m.strConcat(x, y)
		case token.LSS:
			return m.strLess(x, y)
		case token.GTR:
			return m.strLess(y, x)
		case token.LEQ:
			return m.st.Not(m.strLess(y, x))
		case token.GEQ:
			return m.st.Not(m.strLess(x, y))
		}
		panic("bad string op " + op.String())
	}
	a, b := x.(*Term), y.(*Term)
	so, signed := m.sortOf(t)
	st := m.st
	if so.K == KFP {
		switch op {
		case token.ADD:
			return st.FBin(OpFAdd, a, b)
		case token.SUB:
			return st.FBin(OpFSub, a, b)
		case token.MUL:
			return st.FBin(OpFMul, a, b)
		case token.QUO:
			return st.FBin(OpFDiv, a, b)
		case token.LSS:
			return st.FBin(OpFLT, a, b)
		case token.LEQ:
			return st.FBin(OpFLE, a, b)
		case token.GTR:
			return st.FBin(OpFLT, b, a)
		case token.GEQ:
			return st.FBin(OpFLE, b, a)
		}
		panic("bad float op " + op.String())
	}
	if so.K == KBool {
		switch op {
		case token.AND, token.LAND:
			return st.And(a, b)
		case token.OR, token.LOR:
			return st.Or(a, b)
		}
		panic("bad bool op " + op.String())
	}
	switch op {
	case token.ADD:
		return st.Bin(OpAdd, a, b)
	case token.SUB:
		return st.Bin(OpSub, a, b)
	case token.MUL:
		return st.Bin(OpMul, a, b)
	case token.QUO, token.REM:
		if !m.branch(st.Not(st.Eq(b, st.BV(so.W, 0)))) {
			m.goPanic("runtime error: integer divide by zero")
		}
		switch {
		case op == token.QUO && signed:
			return st.Bin(OpSDiv, a, b)
		case op == token.QUO:
			return st.Bin(OpUDiv, a, b)
		case signed:
			return st.Bin(OpSRem, a, b)
		}
		return st.Bin(OpURem, a, b)
	case token.AND:
		return st.Bin(OpBAnd, a, b)
	case token.OR:
		return st.Bin(OpBOr, a, b)
	case token.XOR:
		return st.Bin(OpBXor, a, b)
	case token.AND_NOT:
		return st.Bin(OpBAnd, a, st.Un(OpBNot, b))
	case token.SHL, token.SHR:
		// the count has its own (unsigned, or non-negative signed) type
		cnt := b
		w := so.W
		var big *Term // count >= w
		if cnt.Sort.W > w {
			big = st.Bin(OpULE, st.BV(cnt.Sort.W, uint64(w)), cnt)
			cnt = st.Extract(cnt, w-1, 0)
		} else {
			cnt = st.ZExt(cnt, w)
			big = st.ff
		}
		var r *Term
		switch {
		case op == token.SHL:
			r = st.Ite(big, st.BV(w, 0), st.Bin(OpShl, a, cnt))
		case signed:
			r = st.Ite(big, st.Bin(OpAShr, a, st.BV(w, uint64(w-1))), st.Bin(OpAShr, a, cnt))
		default:
			r = st.Ite(big, st.BV(w, 0), st.Bin(OpLShr, a, cnt))
		}
		return r
	case token.LSS:
		if signed {
			return st.Bin(OpSLT, a, b)
		}
		return st.Bin(OpULT, a, b)
	case token.LEQ:
		if signed {
			return st.Bin(OpSLE, a, b)
		}
		return st.Bin(OpULE, a, b)
	case token.GTR:
		if signed {
			return st.Bin(OpSLT, b, a)
		}
		return st.Bin(OpULT, b, a)
	case token.GEQ:
		if signed {
			return st.Bin(OpSLE, b, a)
		}
		return st.Bin(OpULE, b, a)
	}
	panic(fmt.Sprintf("invalid binary op: %s", op))
}

// equals is Go's == for type t, as a Bool term.
func (m *Machine) equals(t types.Type, x, y value) *Term {
	st := m.st
	switch x := x.(type) {
	case *Term:
		yt := y.(*Term)
		if x.Sort.K == KFP {
			return st.FBin(OpFEQ, x, yt)
		}
		return st.Eq(x, yt)
	case string, *SymStr:
		return m.strEq(x, y)
	case *value:
		if yp, ok := y.(*value); ok {
			return st.Bool(x == yp)
		}
		return st.ff
	case *idxPtr:
		m.unsupported("comparison of symbolic pointers")
	case *Map:
		return st.Bool(x == y.(*Map))
	case *Chan:
		return st.Bool(x == y.(*Chan))
	case *native:
		if yn, ok := y.(*native); ok {
			return st.Bool(x == yn || x.v == yn.v)
		}
		return st.ff
	case []value:
		// only comparison with nil is legal
		if ys := y.([]value); x == nil || ys == nil {
			return st.Bool(x == nil && ys == nil)
		}
		panic("slice comparison")
	case *ssa.Function:
		yf, ok := y.(*ssa.Function)
		return st.Bool(ok && x == yf)
	case *closure:
		if yf, ok := y.(*ssa.Function); ok && yf == nil {
			return st.ff
		}
		yc, ok := y.(*closure)
		return st.Bool(ok && x == yc)
	case *ssa.Builtin:
		return st.Bool(x == y)
	case iface:
		yi := y.(iface)
		if x.t == nil || yi.t == nil {
			return st.Bool(x.t == nil && yi.t == nil)
		}
		if !types.Identical(x.t, yi.t) {
			return st.ff
		}
		if !types.Comparable(x.t) {
			m.goPanic("runtime error: comparing uncomparable type " + x.t.String())
		}
		return m.equals(x.t, x.v, yi.v)
	case structure:
		ys := y.(structure)
		ts := t.Underlying().(*types.Struct)
		r := st.tt
		for i := range x {
			if ts.Field(i).Name() == "_" {
				continue
			}
			r = st.And(r, m.equals(ts.Field(i).Type(), x[i], ys[i]))
		}
		return r
	case array:
		ya := y.(array)
		te := t.Underlying().(*types.Array).Elem()
		r := st.tt
		for i := range x {
			r = st.And(r, m.equals(te, x[i], ya[i]))
		}
		return r
	}
	panic(fmt.Sprintf("equals: %T", x))
}

func (m *Machine) conv(dst, src types.Type, x value) value {
	ud, us := dst.Underlying(), src.Underlying()
	st := m.st
	switch us := us.(type) {
	case *types.Pointer:
		switch ud.(type) {
		case *types.Pointer:
			return x
		case *types.Basic: // unsafe.Pointer
			return x
		}
	case *types.Slice:
		// []byte or []rune -> string
		sl := x.([]value)
		eb := us.Elem().Underlying().(*types.Basic)
		if eb.Kind() == types.Uint8 {
			bs := make([]*Term, len(sl))
			for i, e := range sl {
				bs[i] = e.(*Term)
			}
			return mkStr(bs)
		}
		// []rune -> string
		var out []*Term
		for _, e := range sl {
			out = append(out, m.encodeRune(e.(*Term))...)
		}
		return mkStr(out)
	case *types.Basic:
		if db, ok := ud.(*types.Basic); ok && db.Kind() == types.UnsafePointer {
			if us.Kind() == types.UnsafePointer {
				return x
			}
			m.unsupported("uintptr -> unsafe.Pointer")
		}
		if us.Kind() == types.UnsafePointer {
			if _, ok := ud.(*types.Pointer); ok {
				return x
			}
			m.unsupported("unsafe.Pointer -> uintptr")
		}
		if us.Info()&types.IsString != 0 {
			switch ud := ud.(type) {
			case *types.Slice:
				eb := ud.Elem().Underlying().(*types.Basic)
				if eb.Kind() == types.Uint8 {
					bs := m.strBytes(x)
					out := make([]value, len(bs))
					for i, b := range bs {
						out[i] = b
					}
					return out
				}
				// string -> []rune
				var out []value
				rest := x
				for strLen(rest) > 0 {
					r, n := m.decodeRune(rest)
					out = append(out, r)
					rest = m.strSlice(rest, n, strLen(rest))
				}
				if out == nil {
					out = []value{}
				}
				return out
			case *types.Basic:
				if ud.Info()&types.IsString != 0 {
					return x
				}
			}
			break
		}
		db, ok := ud.(*types.Basic)
		if !ok {
			break
		}
		t := x.(*Term)
		sso, ssigned := m.sortOf(us)
		if db.Info()&types.IsString != 0 {
			// integer -> string (rune encoding)
			r := st.Resize(t, 32, ssigned)
			if sso.W > 32 {
				// out-of-range values become U+FFFD
				fits := st.Eq(st.Resize(r, sso.W, true), t)
				r = st.Ite(fits, r, st.BV(32, 0xFFFD))
			}
			return mkStr(m.encodeRune(r))
		}
		dso, dsigned := m.sortOf(db)
		switch {
		case sso.K == KBV && dso.K == KBV:
			return st.Resize(t, dso.W, ssigned)
		case sso.K == KBV && dso.K == KFP:
			return st.IntToF(t, ssigned, dso)
		case sso.K == KFP && dso.K == KBV:
			// Go leaves out-of-range conversions implementation-defined: report them.
			w := dso.W
			var lo, hi float64
			if dsigned {
				lo, hi = -float64(uint64(1)<<uint(w-1)), float64(uint64(1)<<uint(w-1))
			} else {
				lo, hi = -1, float64(uint64(1)<<uint(w-1))*2
			}
			var inr *Term
			f := st.FToF(t, SF64)
			if dsigned {
				inr = st.And(st.FBin(OpFLE, st.F64(lo), f), st.FBin(OpFLT, f, st.F64(hi)))
			} else {
				inr = st.And(st.FBin(OpFLT, st.F64(lo), f), st.FBin(OpFLT, f, st.F64(hi)))
			}
			if !m.branch(inr) {
				m.incomplete("float to integer conversion out of range (implementation-defined in Go)")
			}
			return st.FToInt(t, dsigned, w)
		case sso.K == KFP && dso.K == KFP:
			return st.FToF(t, dso)
		case sso.K == KBool && dso.K == KBool:
			return t
		}
	}
	panic(fmt.Sprintf("unsupported conversion: %s -> %s", src, dst))
}

// decodeRune runs the real utf8.DecodeRuneInString on s.
func (m *Machine) decodeRune(s value) (*Term, int) {
	if cs, ok := s.(string); ok {
		r, n := utf8.DecodeRuneInString(cs)
		return m.st.BV(32, uint64(uint32(r))), n
	}
	fn := m.stdFunc("unicode/utf8", "DecodeRuneInString")
	res := m.call(fn, []value{s}).(tuple)
	n := m.concretize(res[1].(*Term))
	return res[0].(*Term), int(n)
}

// encodeRune runs the real utf8.AppendRune on a rune term.
func (m *Machine) encodeRune(r *Term) []*Term {
	if r.Op == OpConst {
		s := string(rune(int32(uint32(r.C))))
		return m.strBytes(s)
	}
	fn := m.stdFunc("unicode/utf8", "AppendRune")
	res := m.call(fn, []value{[]value(nil), r}).([]value)
	out := make([]*Term, len(res))
	for i, e := range res {
		out[i] = e.(*Term)
	}
	return out
}

func (m *Machine) stdFunc(pkg, name string) *ssa.Function {
	p := m.prog.ImportedPackage(pkg)
	if p == nil {
		m.unsupported("package not loaded: " + pkg)
	}
	f := p.Func(name)
	if f == nil {
		m.unsupported("no function " + pkg + "." + name)
	}
	return f
}

// ---------- iteration ----------

type iter interface {
	next() tuple
}

type stringIter struct {
	m   *Machine
	s   value
	pos int
}

func (it *stringIter) next() tuple {
	m := it.m
	if it.pos >= strLen(it.s) {
		return tuple{m.st.ff, m.st.BV(64, 0), m.st.BV(32, 0)}
	}
	r, n := m.decodeRune(m.strSlice(it.s, it.pos, strLen(it.s)))
	okv := tuple{m.st.tt, m.st.BV(64, uint64(it.pos)), r}
	it.pos += n
	return okv
}

type mapIter struct {
	m     *Machine
	mp    *Map
	order []int
	pos   int
}

func (it *mapIter) next() tuple {
	m := it.m
	for it.pos < len(it.order) {
		i := it.order[it.pos]
		it.pos++
		if i < len(it.mp.live) && it.mp.live[i] {
			return tuple{m.st.tt, it.mp.keys[i], copyVal(it.mp.vals[i])}
		}
	}
	return tuple{m.st.ff, nil, nil}
}

func (m *Machine) rangeIter(x value, t types.Type) iter {
	switch x := x.(type) {
	case *Map:
		it := &mapIter{m: m, mp: x}
		if x != nil && m.RecordEvents && m.trackRoots != nil {
			m.events = append(m.events, Event{G: m.curG, Kind: "rd", Obj: fmt.Sprintf("map%p", x), Site: m.site(), M: x})
		}
		if x != nil {
			for i := range x.keys {
				if x.live[i] {
					it.order = append(it.order, i)
				}
			}
			it.order = m.permute(it.order)
		} else {
			it.mp = &Map{}
		}
		return it
	case string, *SymStr:
		return &stringIter{m: m, s: x}
	}
	panic(fmt.Sprintf("cannot range over %T", x))
}

// permute applies the harness-selected map iteration order policy.
//   0 canonical (insertion order)
//   1 reversed at every range site
//   2 one symbolic "seed" p in 0..5 per run, applied consistently at every range site:
//     n==2: swapped iff p odd; n==3: the p-th of the 6 permutations; n>3: rotated by p (mod n), reversed iff p odd
func (m *Machine) permute(order []int) []int {
	n := len(order)
	if m.mapOrder == 0 || n < 2 {
		return order
	}
	rev := func(in []int) []int {
		out := make([]int, len(in))
		for i, v := range in {
			out[len(in)-1-i] = v
		}
		return out
	}
	switch m.mapOrder {
	case 1:
		return rev(order)
	case 2:
		if m.mapSeed < 0 {
			m.mapSeed = m.choose(6)
		}
		p := m.mapSeed
		switch {
		case n == 2:
			if p%2 == 1 {
				return rev(order)
			}
			return order
		case n == 3:
			perms := [][]int{{0, 1, 2}, {0, 2, 1}, {1, 0, 2}, {1, 2, 0}, {2, 0, 1}, {2, 1, 0}}[p]
			return []int{order[perms[0]], order[perms[1]], order[perms[2]]}
		default:
			k := p % n
			out := append(append([]int(nil), order[k:]...), order[:k]...)
			if p%2 == 1 {
				out = rev(out)
			}
			return out
		}
	}
	return order
}

// choose forks over 0..n-1 using a fresh symbolic variable.
func (m *Machine) choose(n int) int {
	if n <= 1 {
		return 0
	}
	v := m.fresh("order", S8)
	return int(m.chooseFresh(v, n))
}

func (m *Machine) fresh(prefix string, so Sort) *Term {
	name := fmt.Sprintf("%s%d", prefix, m.vxN)
	m.vxN++
	return m.st.Var(name, so)
}

// ---------- maps ----------

// mapFind returns the position of key in mp, forking on symbolic key equality.
func (m *Machine) mapFind(mp *Map, key value) int {
	if mp == nil {
		return -1
	}
	if m.RecordEvents && m.trackRoots != nil {
		m.events = append(m.events, Event{G: m.curG, Kind: "rd", Obj: fmt.Sprintf("map%p", mp), Site: m.site(), M: mp})
	}
	if h, ok := hashKey(key); ok {
		if mp.symKeys == 0 {
			if i, ok := mp.idx[h]; ok {
				return i
			}
			return -1
		}
		if i, ok := mp.idx[h]; ok {
			return i
		}
	}
	// symbolic comparison against every live entry (at most one can match)
	for i := range mp.keys {
		if !mp.live[i] {
			continue
		}
		eq := m.equals(mp.keyT, mp.keys[i], key)
		if eq.IsFalse() {
			continue
		}
		if m.branch(eq) {
			return i
		}
	}
	return -1
}

func (m *Machine) lookup(instr *ssa.Lookup, x, idx value) value {
	switch x := x.(type) {
	case *Map:
		var v value
		i := m.mapFind(x, idx)
		ok := i >= 0
		if ok {
			v = copyVal(x.vals[i])
		} else {
			v = m.zero(instr.X.Type().Underlying().(*types.Map).Elem())
		}
		if instr.CommaOk {
			return tuple{v, m.st.Bool(ok)}
		}
		return v
	case string, *SymStr:
		return m.index(x, idx.(*Term), instr.Index.Type(), types.Typ[types.Uint8])
	}
	panic(fmt.Sprintf("lookup on %T", x))
}

func (m *Machine) mapSet(mp *Map, key, val value) {
	if m.freezeOn && m.frozenM[mp] {
		m.violation("write-to-frozen", "map update on a map that existed before vxFreeze")
	}
	if m.RecordEvents && m.trackRoots != nil {
		m.events = append(m.events, Event{G: m.curG, Kind: "wr", Obj: fmt.Sprintf("map%p", mp), Site: m.site(), M: mp})
	}
	i := m.mapFind(mp, key)
	if i >= 0 {
		old := mp.vals[i]
		m.logUndo(func() { mp.vals[i] = old })
		mp.vals[i] = copyVal(val)
		return
	}
	mp.keys = append(mp.keys, key)
	mp.vals = append(mp.vals, copyVal(val))
	mp.live = append(mp.live, true)
	mp.n++
	pos := len(mp.keys) - 1
	h, hashed := hashKey(key)
	if hashed {
		mp.idx[h] = pos
	} else {
		mp.symKeys++
	}
	m.logUndo(func() {
		mp.keys = mp.keys[:pos]
		mp.vals = mp.vals[:pos]
		mp.live = mp.live[:pos]
		mp.n--
		if hashed {
			delete(mp.idx, h)
		} else {
			mp.symKeys--
		}
	})
}

func (m *Machine) mapDelete(mp *Map, key value) {
	if mp == nil {
		return
	}
	if m.freezeOn && m.frozenM[mp] {
		m.violation("write-to-frozen", "delete on a map that existed before vxFreeze")
	}
	i := m.mapFind(mp, key)
	if i < 0 {
		return
	}
	mp.live[i] = false
	mp.n--
	h, hashed := hashKey(mp.keys[i])
	if hashed {
		delete(mp.idx, h)
	} else {
		mp.symKeys--
	}
	m.logUndo(func() {
		mp.live[i] = true
		mp.n++
		if hashed {
			mp.idx[h] = i
		} else {
			mp.symKeys++
		}
	})
}

// ---------- builtins ----------

func (m *Machine) callBuiltin(caller *frame, fn *ssa.Builtin, args []value) value {
	st := m.st
	switch fn.Name() {
	case "append":
		if len(args) == 1 {
			return args[0]
		}
		var add []value
		switch y := args[1].(type) {
		case string, *SymStr:
			for _, b := range m.strBytes(y) {
				add = append(add, b)
			}
		case []value:
			add = y
		}
		if len(add) == 0 {
			return args[0]
		}
		dst := args[0].([]value)
		elemT := fn.Type().(*types.Signature).Params().At(0).Type().Underlying().(*types.Slice).Elem()
		return m.appendSlice(dst, add, elemT)

	case "copy":
		dst := args[0].([]value)
		var src []value
		switch y := args[1].(type) {
		case string, *SymStr:
			for _, b := range m.strBytes(y) {
				src = append(src, b)
			}
		case []value:
			src = y
		}
		n := len(dst)
		if len(src) < n {
			n = len(src)
		}
		if n > 0 {
			// memmove semantics
			tmp := make([]value, n)
			for i := 0; i < n; i++ {
				tmp[i] = copyVal(src[i])
			}
			for i := 0; i < n; i++ {
				m.setCell(&dst[i], tmp[i])
			}
		}
		return st.BV(64, uint64(n))

	case "close":
		c := args[0].(*Chan)
		c.closed = true
		return nil

	case "delete":
		m.mapDelete(args[0].(*Map), args[1])
		return nil

	case "print", "println":
		return nil

	case "len":
		switch x := args[0].(type) {
		case string, *SymStr:
			return st.BV(64, uint64(strLen(x)))
		case array:
			return st.BV(64, uint64(len(x)))
		case *value:
			return st.BV(64, uint64(len((*x).(array))))
		case []value:
			return st.BV(64, uint64(len(x)))
		case *Map:
			if x == nil {
				return st.BV(64, 0)
			}
			return st.BV(64, uint64(x.n))
		case *Chan:
			if x == nil {
				return st.BV(64, 0)
			}
			return st.BV(64, uint64(len(x.buf)))
		}
		panic(fmt.Sprintf("len: illegal operand: %T", args[0]))

	case "cap":
		switch x := args[0].(type) {
		case array:
			return st.BV(64, uint64(len(x)))
		case *value:
			return st.BV(64, uint64(len((*x).(array))))
		case []value:
			return st.BV(64, uint64(cap(x)))
		case *Chan:
			return st.BV(64, uint64(x.cap))
		}
		panic(fmt.Sprintf("cap: illegal operand: %T", args[0]))

	case "min", "max":
		t := fn.Type().(*types.Signature).Params().At(0).Type()
		acc := args[0]
		for _, a := range args[1:] {
			var less *Term
			if fn.Name() == "min" {
				less = m.binop(token.LSS, t, a, acc).(*Term)
			} else {
				less = m.binop(token.GTR, t, a, acc).(*Term)
			}
			if at, ok := a.(*Term); ok {
				acc = st.Ite(less, at, acc.(*Term))
			} else if m.branch(less) {
				acc = a
			}
		}
		return acc

	case "panic":
		panic(targetPanic{v: args[0], desc: "panic(" + m.describe(args[0]) + ")", stack: m.stackString()})

	case "recover":
		return m.doRecover(caller)

	case "ssa:wrapnilchk":
		recv := args[0]
		if p, ok := recv.(*value); ok && p == nil {
			m.goPanic("value method called using nil pointer")
		}
		return recv

	case "clear":
		switch x := args[0].(type) {
		case *Map:
			for i := range x.keys {
				if x.live[i] {
					m.mapDelete(x, x.keys[i])
				}
			}
		case []value:
			elemT := fn.Type().(*types.Signature).Params().At(0).Type().Underlying().(*types.Slice).Elem()
			for i := range x {
				m.storeCell(elemT, &x[i], m.zero(elemT))
			}
		}
		return nil
	}
	panic("unknown built-in: " + fn.Name())
}

func (m *Machine) doRecover(caller *frame) value {
	if caller != nil && !caller.panicking && caller.caller != nil && caller.caller.panicking {
		caller.caller.panicking = false
		p := caller.caller.panic
		caller.caller.panic = nil
		if tp, ok := p.(targetPanic); ok {
			return tp.v
		}
		panic(fmt.Sprintf("unexpected panic type %T in recover()", p))
	}
	return iface{}
}

// appendSlice implements append with Go's in-place / reallocate behaviour.
func (m *Machine) appendSlice(dst, add []value, elemT types.Type) []value {
	need := len(dst) + len(add)
	if need <= cap(dst) {
		out := dst[:need]
		// add may alias dst: snapshot first
		tmp := make([]value, len(add))
		for i, v := range add {
			tmp[i] = copyVal(v)
		}
		for i, v := range tmp {
			m.setCell(&out[len(dst)+i], v)
		}
		return out
	}
	nc := growCap(cap(dst), need, int(m.sizes.Sizeof(elemT)))
	out := make([]value, need, nc)
	for i, v := range dst {
		out[i] = copyVal(v)
	}
	for i, v := range add {
		out[len(dst)+i] = copyVal(v)
	}
	z := m.zero(elemT)
	full := out[:nc]
	for i := need; i < nc; i++ {
		full[i] = copyVal(z)
	}
	return out
}

// growCap asks the host runtime what capacity append would choose for a
// slice of elements of the given size.
func growCap(oldCap, need, elemSize int) int {
	if elemSize <= 0 {
		return need
	}
	if elemSize > 1024 {
		elemSize = 1024
	}
	et := reflect.ArrayOf(elemSize, reflect.TypeOf(byte(0)))
	st := reflect.SliceOf(et)
	s := reflect.MakeSlice(st, oldCap, oldCap)
	s = reflect.AppendSlice(s, reflect.MakeSlice(st, need-oldCap, need-oldCap))
	return s.Cap()
}

// ---------- channels / goroutines (minimal deterministic model) ----------

func (m *Machine) chanSend(c *Chan, v value) {
	if c == nil {
		m.incomplete("send on nil channel (blocks forever)")
	}
	if c.closed {
		m.goPanic("send on closed channel")
	}
	c.buf = append(c.buf, copyVal(v))
	old := len(c.buf) - 1
	m.logUndo(func() { c.buf = c.buf[:old] })
}

func (m *Machine) chanRecv(c *Chan, commaOk bool) value {
	if c == nil {
		m.incomplete("receive on nil channel (blocks forever)")
	}
	if len(c.buf) == 0 {
		if c.closed {
			z := m.zero(c.elemT)
			if commaOk {
				return tuple{z, m.st.ff}
			}
			return z
		}
		m.incomplete("receive would block (no runnable sender in the sequential model)")
	}
	v := c.buf[0]
	oldbuf := c.buf
	c.buf = c.buf[1:]
	m.logUndo(func() { c.buf = oldbuf })
	if commaOk {
		return tuple{v, m.st.tt}
	}
	return v
}
