// gosx: symbolic execution of go/ssa harnesses with an SMT back end.
package main

import (
	"runtime/pprof"
	"encoding/json"
	"flag"
	"fmt"
	"os"
	"path/filepath"
	"strings"
	"time"

	"gosx/sx"
)

func main() {
	dir := flag.String("dir", "/repo/v2", "module directory of the package under test")
	pkg := flag.String("pkg", ".", "package pattern")
	hdir := flag.String("harness-dir", "", "directory with zz_verif_*.go harness files to overlay into the package")
	harness := flag.String("harness", "", "comma-separated harness function names")
	solver := flag.String("solver", "z3-new", "z3 | z3-new | cvc5")
	workers := flag.Int("workers", 8, "parallel workers")
	timeout := flag.Int("qtimeout", 20000, "per-query timeout (ms)")
	maxPaths := flag.Int("max-paths", 0, "stop after this many paths (0 = none)")
	maxSteps := flag.Int("max-steps", 0, "per-path step budget")
	deadline := flag.Duration("deadline", 0, "wall-clock limit per harness")
	maxViol := flag.Int("max-violations", 20, "stop a harness after this many violations")
	out := flag.String("json", "", "write reports as JSON to this file")
	trace := flag.Bool("trace", false, "trace instructions")
	slog := flag.String("solver-log", "", "write worker 0's SMT-LIB dialogue here")
	hangViol := flag.Bool("hang-violation", false, "an exhausted step budget is a violation (label hang) instead of an incomplete path")
	modfile := flag.String("modfile", "", "alternate go.mod (keeps /repo untouched)")
	cpuprof := flag.String("cpuprofile", "", "write CPU profile")
	flag.Parse()
	if *cpuprof != "" {
		f, _ := os.Create(*cpuprof)
		pprof.StartCPUProfile(f)
		defer pprof.StopCPUProfile()
	}

	overlay := map[string][]byte{}
	if *hdir != "" {
		files, _ := filepath.Glob(filepath.Join(*hdir, "*.go"))
		pdir := *dir
		if *pkg != "." {
			pdir = filepath.Join(*dir, *pkg)
		}
		for _, f := range files {
			b, err := os.ReadFile(f)
			if err != nil {
				fmt.Fprintln(os.Stderr, err)
				os.Exit(2)
			}
			overlay[filepath.Join(pdir, filepath.Base(f))] = b
		}
	}
	var extra []string
	if *modfile != "" {
		extra = append(extra, "-modfile="+*modfile)
	}
	t0 := time.Now()
	pattern := *pkg
	if pattern != "." && !strings.HasPrefix(pattern, "./") {
		pattern = "./" + pattern
	}
	p, err := sx.Load(*dir, pattern, overlay, "verif", extra)
	if err != nil {
		fmt.Fprintln(os.Stderr, "load:", err)
		os.Exit(2)
	}
	fmt.Fprintf(os.Stderr, "loaded %s in %.1fs\n", p.Pkg.Pkg.Path(), time.Since(t0).Seconds())
	var reports []*sx.Report
	code := 0
	for _, h := range strings.Split(*harness, ",") {
		if h == "" {
			continue
		}
		rep := sx.Explore(p, h, sx.Options{Solver: *solver, TimeoutMS: *timeout, Workers: *workers, MaxPaths: *maxPaths,
			MaxSteps: *maxSteps, Deadline: *deadline, MaxViolations: *maxViol, Trace: *trace, SolverLog: *slog, HangIsViolation: *hangViol})
		fmt.Print(rep.Summary())
		reports = append(reports, rep)
		if len(rep.Violations) > 0 {
			code = 1
		} else if !rep.Exhaustive && code == 0 {
			code = 3
		}
	}
	if *out != "" {
		b, _ := json.MarshalIndent(reports, "", " ")
		os.WriteFile(*out, b, 0o644)
	}
	pprof.StopCPUProfile()
	os.Exit(code)
}
