#!/usr/bin/env python3
"""Regenerates MANIFEST.json from checks.json (registered checks) and manifest_meta.json (texts, N/A reasons)."""
import json
checks = json.load(open('checks.json'))
meta = json.load(open('manifest_meta.json'))
props = [json.loads(l)['id'] for l in open('properties.jsonl')]
out = {
 "version": 1,
 "setup_cmd": "cd /verif/engine && GOFLAGS=-mod=mod GOPROXY=off GOSUMDB=off GOTOOLCHAIN=local go build -o ../bin/gosx ./cmd/gosx",
 "hooks": {"guard": "verif",
           "enable": "harness files under /verif/harness/** carry //go:build verif and are injected as an overlay (go/packages Overlay for the engine, go test -overlay for native replays) with -tags=verif; /repo carries no hook code. For native replays of harnesses that stub callees of match() the go test overlay also replaces v2/classifier.go by a copy of the CURRENT file whose four call sites go through wrappers defaulting to the real callee (harness/v2/classifier/native_hooks.json; skipped when a call site is not found exactly once)",
           "baseline_off_cmd": "cd /repo && cp go.mod go.sum /tmp/ 2>/dev/null; (cd /repo && go test -vet=off -count=1 ./... ) && (cd /repo/v2 && go test -vet=off -count=1 ./...)",
           "source_commits": [], "add_only": True},
 "engines": [{"name": "gosx", "path": "/verif/engine",
              "serves_properties": sorted(checks.keys()),
              "kind_free_text": "path-based symbolic executor for go/ssa (golang.org/x/tools v0.29.0): scalars are SMT terms (bit-vectors, Bool, IEEE float64), every symbolic branch / assertion / run-time check is an SMT query to z3 5.1.0 (z3-new; cvc5 for floating point), counterexamples are replayed natively before being reported; see DESIGN.md section 2"}],
 "checks": [], "not_applicable": [], "notes": meta.get("notes", "")}
for p in props:
    if p in checks:
        m = meta["claimed"][p]
        out["checks"].append({
            "property_id": p,
            "quick_cmd": "./check %s quick" % p,
            "thorough_cmd": "./check %s thorough" % p,
            "evidence_file": "/verif/evidence/%s.json" % p,
            "replay_cmd_template": "./check %s --replay {path}" % p,
            "engine": "gosx",
            "level_claimed": {"category": "model_checking", "text": m["text"], "design_ref": m.get("design_ref", "DESIGN.md section 4, " + p)},
            "level_note": m["note"],
            "technique": m.get("technique", "bounded symbolic execution of the real go/ssa code, SMT-decided (z3/cvc5), native replay of counterexamples")})
    else:
        out["not_applicable"].append({"property_id": p, "reason": meta["not_applicable"][p]})
json.dump(out, open('MANIFEST.json', 'w'), indent=1)
print("checks:", len(out["checks"]), "n/a:", len(out["not_applicable"]))
