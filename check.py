#!/usr/bin/env python3
"""Driver: ./check <property-id> quick|thorough   |   ./check <property-id> --replay <file>

Runs the gosx harnesses registered for a property in checks.json against /repo's
current working tree, replays every counterexample natively, applies the
known-findings file, writes evidence/<id>.json, and exits 0 / 1 (VIOLATION) / 2
(INCONCLUSIVE: engine, solver or replay trouble).
"""
import glob
import json
import os
import re
import shutil
import subprocess
import sys
import tempfile
import time

VERIF = os.path.dirname(os.path.abspath(__file__))
ENV = dict(os.environ, GOFLAGS="-mod=mod", GOPROXY="off", GOSUMDB="off", GOTOOLCHAIN="local")
GOSX = os.path.join(VERIF, "bin", "gosx")


def sh(cmd, cwd=None, env=None, timeout=None):
    p = subprocess.run(cmd, cwd=cwd, env=env or ENV, stdout=subprocess.PIPE, stderr=subprocess.STDOUT, timeout=timeout)
    return p.returncode, p.stdout.decode("utf-8", "replace")


def ensure_engine():
    src_m = max(os.path.getmtime(f) for f in glob.glob(os.path.join(VERIF, "engine", "**", "*.go"), recursive=True))
    if not os.path.exists(GOSX) or os.path.getmtime(GOSX) < src_m:
        os.makedirs(os.path.join(VERIF, "bin"), exist_ok=True)
        rc, out = sh(["go", "build", "-o", GOSX, "./cmd/gosx"], cwd=os.path.join(VERIF, "engine"))
        if rc != 0:
            print(out)
            print("INCONCLUSIVE: engine build failed")
            sys.exit(2)


EXCLUDED = []   # notes about harness files dropped because they no longer compile (see run())


class Unit:
    """One package under test with its harness overlay."""

    def __init__(self, spec, scratch):
        self.mod = spec["mod"]            # /repo or /repo/v2
        repo = os.environ.get("VERIF_REPO", "/repo")  # background runs may point at a snapshot of /repo
        if repo != "/repo" and self.mod.startswith("/repo"):
            self.mod = repo + self.mod[len("/repo"):]
        self.pkg = spec.get("pkg", ".")   # package path relative to the module
        self.hdir = os.path.join(VERIF, spec["harness_dir"])
        self.scratch = scratch
        self.modfile = os.path.join(scratch, "mod_" + self.mod.strip("/").replace("/", "_"))
        os.makedirs(self.modfile, exist_ok=True)
        for f in ("go.mod", "go.sum"):
            shutil.copy(os.path.join(self.mod, f), self.modfile)
        self.pkgdir = os.path.normpath(os.path.join(self.mod, self.pkg))
        self.excluded = []
        self.build_overlay()

    def exclude(self, files):
        """Drop harness files that no longer compile against the current tree (they belong to other
        harnesses than the requested ones); the engine and the native replay then use a filtered copy."""
        self.excluded += files
        nd = os.path.join(self.modfile, "hfilt_%s_%d" % (self.pkg.replace("/", "_"), len(self.excluded)))
        os.makedirs(nd, exist_ok=True)
        for f in os.listdir(self.hdir):
            if f not in files and os.path.isfile(os.path.join(self.hdir, f)):
                shutil.copy(os.path.join(self.hdir, f), nd)
        self.hdir = nd
        self.build_overlay()

    def defining_files(self, harnesses):
        out = set()
        for f in glob.glob(os.path.join(self.hdir, "*.go")):
            src = open(f).read()
            if any(re.search(r"^func %s\(" % re.escape(h), src, re.M) for h in harnesses):
                out.add(os.path.basename(f))
        return out

    def build_overlay(self):
        ov = {}
        for f in glob.glob(os.path.join(self.hdir, "*.go")):
            ov[os.path.join(self.pkgdir, os.path.basename(f))] = f
        # native call-site hooks: a rewritten copy of one source file of the CURRENT tree (see the json)
        hk = os.path.join(self.hdir, "native_hooks.json")
        self.hooks = None
        if os.path.exists(hk):
            h = json.load(open(hk))
            srcf = os.path.join(self.pkgdir, h["file"])
            try:
                src = open(srcf).read()
                okh = all(src.count(a) == 1 for a, _ in h["subs"])
                if okh:
                    for a, b in h["subs"]:
                        src = src.replace(a, b)
                    src += "\n".join(h["append"]) + "\n"
                    dst = os.path.join(self.modfile, "hooked_" + h["file"])
                    open(dst, "w").write(src)
                    ov[srcf] = dst
                self.hooks = okh
            except OSError:
                self.hooks = False
        self.ovfile = os.path.join(self.modfile, "overlay_%s.json" % self.pkg.replace("/", "_"))
        json.dump({"Replace": ov}, open(self.ovfile, "w"))

    def gosx(self, harnesses, solver, workers, extra, outjson, timeout, env=None):
        cmd = [GOSX, "-dir", self.mod, "-pkg", self.pkg, "-harness-dir", self.hdir, "-harness", ",".join(harnesses),
               "-solver", solver, "-workers", str(workers), "-modfile", os.path.join(self.modfile, "go.mod"), "-json", outjson] + extra
        try:
            rc, out = sh(cmd, timeout=timeout, env=dict(ENV, **env) if env else None)
        except subprocess.TimeoutExpired:
            return 124, "timeout"
        return rc, out

    def native(self, envextra, run, race=False, timeout=600, test_timeout=None):
        env = dict(ENV, **envextra)
        cmd = ["go", "test", "-tags", "verif", "-overlay", self.ovfile, "-modfile", os.path.join(self.modfile, "go.mod"),
               "-vet=off", "-count=1", "-run", run, "-v"]
        if test_timeout:
            cmd += ["-timeout", test_timeout]
        if race:
            cmd.append("-race")
        cmd.append(".")
        try:
            return sh(cmd, cwd=self.pkgdir, env=env, timeout=timeout)
        except subprocess.TimeoutExpired:
            return 124, "timeout"


def replay_native(unit, harness, label, vx, path):
    json.dump({"harness": harness, "label": label, "vx": vx}, open(path, "w"), indent=1)
    rc, out = unit.native({"VX_REPLAY": path}, "TestVxReplay$", timeout=120, test_timeout="60s")
    fails = [l.split("VXFAIL", 1)[1].strip() for l in out.splitlines() if "VXFAIL" in l]
    passed = "VXPASS" in out
    if not fails and not passed and rc != 0:
        # the natively compiled code crashed (panic in a goroutine, fatal error) or hung
        for marker in ("panic: test timed out", "fatal error:", "panic:", "timeout"):
            if marker in out:
                fails = ["native run crashed or hung: " + marker]
                break
    return fails, passed, out


def conformance(unit, harness, scratch):
    """Engine (concrete run) and native build must emit identical strings."""
    ej = os.path.join(scratch, "conf_e.json")
    rc, out = unit.gosx([harness], "z3-new", 1, [], ej, 600)
    if not os.path.exists(ej):
        return False, "engine produced no report: " + out[-500:], 0
    rep = json.load(open(ej))[0]
    if rep.get("EngineError"):
        return False, "engine error: " + rep["EngineError"], 0
    nj = os.path.join(scratch, "conf_n.json")
    rc, nout = unit.native({"VX_EMIT": harness, "VX_EMIT_OUT": nj}, "TestVxEmit$")
    if rc != 0 or not os.path.exists(nj):
        return False, "native conformance run failed: " + nout[-800:], 0
    a, b = rep.get("Emitted") or [], json.load(open(nj)) or []
    if a != b or not a:
        for i in range(max(len(a), len(b))):
            x = a[i] if i < len(a) else None
            y = b[i] if i < len(b) else None
            if x != y:
                return False, "conformance mismatch at item %d: engine=%r native=%r" % (i, x, y), len(a)
        return False, "conformance run emitted nothing", 0
    return True, "", len(a)


def load_known():
    p = os.path.join(VERIF, "known_findings.json")
    if not os.path.exists(p):
        return []
    return json.load(open(p)).get("findings", [])


def main():
    if len(sys.argv) < 3:
        print(__doc__)
        sys.exit(2)
    pid, tier = sys.argv[1], sys.argv[2]
    checks = json.load(open(os.path.join(VERIF, "checks.json")))
    if pid not in checks:
        print("unknown property", pid)
        sys.exit(2)
    spec = checks[pid]
    ensure_engine()
    t0 = time.time()
    seed = int(os.environ.get("VERIF_SEED", "0") or 0)
    scratch = tempfile.mkdtemp(prefix="vxcheck_")
    os.makedirs(os.path.join(VERIF, "evidence", "replays"), exist_ok=True)
    try:
        rc = run(pid, tier, spec, scratch, seed, t0)
    finally:
        shutil.rmtree(scratch, ignore_errors=True)
        # self-check: /repo must be untouched by the machinery
        st = subprocess.run(["git", "-C", "/repo", "status", "--porcelain", "--", "go.sum", "v2/go.sum", "go.mod", "v2/go.mod"],
                            stdout=subprocess.PIPE).stdout.decode()
        if st.strip():
            print("warning: module files in /repo differ from HEAD:", st.strip())
    sys.exit(rc)


def run(pid, tier, spec, scratch, seed, t0):
    if tier == "--replay":
        return do_replay(pid, spec, scratch, sys.argv[3])
    workers = int(os.environ.get("VERIF_WORKERS", "16"))
    units = {}
    reports = []
    inconclusive = []
    violations = []      # confirmed, not known
    known_hits = []
    unconfirmed = []
    conf_cases = 0
    known = [k for k in load_known() if k.get("property") == pid and k.get("status", "open") == "open"]

    def unit_for(us):
        key = (us["mod"], us.get("pkg", "."), us["harness_dir"])
        if key not in units:
            units[key] = Unit(us, scratch)
        return units[key]

    for grp in spec["groups"]:
        u = unit_for(grp)
        # translator validation first
        for ch in grp.get("conformance", []):
            ok, why, n = conformance(u, ch, scratch)
            conf_cases += n
            if not ok:
                inconclusive.append("conformance %s: %s" % (ch, why))
        hs = grp.get(tier)
        if hs is None and tier == "thorough" and not grp.get("quick_only"):
            hs = grp.get("quick")
        if not hs:
            continue
        solver = grp.get("solver", "z3-new")
        extra = list(grp.get("extra", []))
        if grp.get("deadline_" + tier):
            extra += ["-deadline", grp["deadline_" + tier]]
        if grp.get("max_steps"):
            extra += ["-max-steps", str(grp["max_steps"])]
        if grp.get("hang_is_violation"):
            extra += ["-hang-violation"]
        outj = os.path.join(scratch, "rep_%d.json" % len(reports))
        rc, out = u.gosx(hs, solver, workers, extra, outj, spec.get("timeout_" + tier, 3600), env=grp.get("env"))
        for _ in range(3):
            # a harness file of ANOTHER harness that no longer compiles against the tree (a function it
            # names was renamed or removed) must not take this check down: drop it and retry.
            if os.path.exists(outj) or "package load errors" not in out:
                break
            bad = set(re.findall(r"(zz_verif_\w+\.go):\d+", out)) & set(os.listdir(u.hdir))
            if not bad or bad & u.defining_files(hs):
                break
            u.exclude(sorted(bad))
            EXCLUDED.append("harness files excluded (do not compile against the current tree, not needed by %s): %s" % (hs, sorted(bad)))
            print("note:", EXCLUDED[-1])
            rc, out = u.gosx(hs, solver, workers, extra, outj, spec.get("timeout_" + tier, 3600), env=grp.get("env"))
        if not os.path.exists(outj):
            inconclusive.append("engine produced no report for %s: %s" % (hs, out[-1500:]))
            continue
        for rep in json.load(open(outj)):
            rep["_unit"] = u
            rep["_solver"] = solver
            reports.append(rep)

    # differential self-check of the engine: the same harness with the pre-filters and the query cache
    # switched off must explore exactly the same paths
    diff_cases = 0
    for d in (spec.get("differential") or {}).get(tier, []):
        u = unit_for(d)
        outs = []
        for env in (None, {"GOSX_NOIMPLIED": "1", "GOSX_NOCACHE": "1"}):
            oj = os.path.join(scratch, "diff_%d.json" % len(outs))
            u.gosx(d["harnesses"], d.get("solver", "z3-new"), workers, [], oj, 3600, env=env)
            outs.append(json.load(open(oj)) if os.path.exists(oj) else None)
        if outs[0] is None or outs[1] is None:
            inconclusive.append("differential run produced no report")
        else:
            for a, b in zip(outs[0], outs[1]):
                diff_cases += 1
                if (a.get("Paths"), a.get("Completed"), len(a.get("Violations") or [])) != (b.get("Paths"), b.get("Completed"), len(b.get("Violations") or [])):
                    inconclusive.append("engine self-check: %s explores %s paths with pre-filters and %s without" % (a["Harness"], a.get("Paths"), b.get("Paths")))
    conf_cases += diff_cases

    # vacuity: every harness must complete at least one path through its final cover
    for rep in reports:
        h = rep["Harness"]
        if rep.get("EngineError"):
            inconclusive.append("%s: %s" % (h, rep["EngineError"]))
            continue
        if not rep.get("Covers") or not rep["Covers"].get("end"):
            if not rep.get("Violations"):
                inconclusive.append("%s: no path reached the final vxCover (vacuous harness)" % h)
        if rep.get("QErrors"):
            inconclusive.append("%s: solver reported %d (error ...) lines" % (h, rep["QErrors"]))

    # replay every distinct violation natively (first per label)
    nrep = 0
    for rep in reports:
        seen = {}
        for v in rep.get("Violations") or []:
            key = v["Label"]
            seen.setdefault(key, []).append(v)
        for label, vs in seen.items():
            confirmed = None
            for v in vs[:3]:
                nrep += 1
                path = os.path.join(VERIF, "evidence", "replays", "%s-%s-%d.json" % (pid, rep["Harness"], nrep))
                if (label == "write-to-frozen" or label in spec.get("race_labels", [])) and spec.get("race_test"):
                    # engine-only oracle (write-set): confirm by the native race detector
                    json.dump({"harness": rep["Harness"], "label": label, "vx": v.get("Vx") or []}, open(path, "w"), indent=1)
                    rc, out = rep["_unit"].native({"VX_REPLAY": path}, spec["race_test"] + "$", race=True)
                    fails = ["data race reported by the Go race detector"] if ("DATA RACE" in out or "VXFAIL" in out) else []
                    passed = rc == 0
                else:
                    fails, passed, out = replay_native(rep["_unit"], rep["Harness"], label, v.get("Vx") or [], path)
                if fails:
                    confirmed = (v, path, fails)
                    break
                elif not passed:
                    unconfirmed.append("%s/%s: native replay did not run: %s" % (rep["Harness"], label, out[-400:]))
                else:
                    os.remove(path)
            if confirmed is None:
                if rep["Harness"] in spec.get("engine_only", []):
                    # oracle exists only inside the engine (write-set / schedule); replay is a dedicated native program
                    confirmed = (vs[0], None, [label])
                else:
                    unconfirmed.append("%s/%s: counterexample did not reproduce natively (engine or stub error)" % (rep["Harness"], label))
                    continue
            v, path, fails = confirmed
            k = match_known(known, rep["Harness"], label, v)
            if k is not None:
                known_hits.append((k, rep["Harness"], label))
            else:
                violations.append((rep["Harness"], label, path, v))

    # known findings: replay each listed witness natively
    for k in known:
        if not k.get("witness"):
            continue
        us = k["unit"]
        u = unit_for(us)
        wpath = os.path.join(VERIF, k["witness"])
        w = json.load(open(wpath))
        tmpw = os.path.join(scratch, "known_witness.json")
        fails, passed, out = replay_native(u, w["harness"], w.get("label", ""), w["vx"], tmpw)
        if fails:
            print("KNOWN-FINDING: property=%s %s" % (pid, k["what"]))
        elif passed:
            print("note: known finding no longer reproduces (%s); consider marking it fixed" % k["id"])
        else:
            inconclusive.append("known-finding witness %s could not be replayed: %s" % (k["id"], out[-300:]))

    exhaustive = bool(reports) and all(r.get("Exhaustive") for r in reports)
    incomplete = [(r["Harness"], r.get("Reasons")) for r in reports if not r.get("Exhaustive") and not r.get("Violations")]
    write_evidence(pid, tier, seed, spec, reports, violations, known_hits, unconfirmed, inconclusive, incomplete,
                   conf_cases, nrep, exhaustive, time.time() - t0)

    for h, label, path, v in violations:
        print("VIOLATION property=%s replay=%s  (harness %s, assertion %s)" % (pid, path or "-", h, label))
    for u in unconfirmed:
        print("INCONCLUSIVE:", u)
    for i in inconclusive:
        print("INCONCLUSIVE:", i)
    for h, why in incomplete:
        print("INCOMPLETE: harness %s did not exhaust its bound: %s" % (h, why))
    tot_paths = sum(r.get("Paths", 0) for r in reports)
    print("%s %s: %d harnesses, %d paths, %d solver queries, %d violations, %d known, exhaustive=%s, %.1fs" % (
        pid, tier, len(reports), tot_paths, sum(r.get("Queries", 0) for r in reports), len(violations), len(known_hits), exhaustive, time.time() - t0))
    if violations:
        return 1
    if unconfirmed or inconclusive or incomplete:
        return 2
    return 0


def match_known(known, harness, label, v):
    for k in known:
        m = k.get("match", {})
        if m.get("harness") and m["harness"] != harness:
            continue
        if m.get("label") and m["label"] != label:
            continue
        return k
    return None


def do_replay(pid, spec, scratch, path):
    w = json.load(open(path))
    for grp in spec["groups"]:
        names = (grp.get("quick") or []) + (grp.get("thorough") or [])
        if w["harness"] in names:
            u = Unit(grp, scratch)
            fails, passed, out = replay_native(u, w["harness"], w.get("label", ""), w["vx"], os.path.join(scratch, "r.json"))
            print(out)
            if fails:
                print("VIOLATION property=%s replay=%s" % (pid, path))
                return 1
            return 0 if passed else 2
    print("harness %s not registered for %s" % (w["harness"], pid))
    return 2


def write_evidence(pid, tier, seed, spec, reports, violations, known_hits, unconfirmed, inconclusive, incomplete,
                   conf_cases, nrep, exhaustive, wall):
    funcs = {}
    intr = {}
    samples = []
    per = []
    for r in reports:
        for k, v in (r.get("Funcs") or {}).items():
            funcs[k] = funcs.get(k, 0) + v
        for k, v in (r.get("Intrinsics") or {}).items():
            intr[k] = intr.get(k, 0) + v
        for s in (r.get("Samples") or [])[:2]:
            samples.append({"harness": r["Harness"], "inputs": s.get("inputs"), "decisions": s.get("decisions"), "outcome": s.get("outcome")})
        per.append({"harness": r["Harness"], "paths": r.get("Paths"), "completed": r.get("Completed"), "infeasible": r.get("Infeasible"),
                    "incomplete": r.get("Incomplete"), "symbolic_decisions": r.get("Branches"), "ssa_instructions_executed": r.get("Steps"),
                    "assertions_discharged_unsat": r.get("AssertsOK"), "violations": len(r.get("Violations") or []),
                    "solver": r.get("_solver"), "queries": r.get("Queries"), "sat": r.get("QSat"), "unsat": r.get("QUnsat"),
                    "unknown": r.get("QUnknown"), "solver_errors": r.get("QErrors"), "solver_seconds": round(r.get("SolverSecs", 0), 2),
                    "refinement_iterations": r.get("CegarIters"), "wall_seconds": round(r.get("WallSecs", 0), 2),
                    "exhaustive": r.get("Exhaustive"), "frontier_left": r.get("FrontierLeft"), "covers": r.get("Covers"),
                    "incomplete_reasons": r.get("Reasons"), "notes": r.get("Notes")})
    repo_funcs = sorted(k for k in funcs if "licenseclassifier" in k or "go-diff" in k)
    ev = {
        "property_id": pid,
        "tier": tier if tier in ("quick", "thorough") else "quick",
        "seed": seed,
        "level": "model_checking",
        "coverage": {
            "states": max(1, sum(r.get("Completed", 0) for r in reports)),
            "transitions": max(1, sum(r.get("Branches", 0) for r in reports)),
            "traces_validated_against_impl": conf_cases + nrep,
            "samples": samples or [{"note": "no path completed"}],
            "exhaustive": exhaustive,
            "explanation": "states = symbolic paths completed (each stands for every input satisfying its path condition); transitions = symbolic branch decisions; each decision and each assertion is one SMT query over the SSA of the functions listed",
            "bounds": spec.get("bounds", {}).get(tier, spec.get("bounds", {})),
            "outside_the_claim": spec.get("outside", []),
            "harnesses": per,
            "functions_encoded_repo": repo_funcs,
            "functions_encoded_total": len(funcs),
            "ssa_functions_executed": {k: funcs[k] for k in repo_funcs},
            "intrinsics_and_stubs_hit": intr,
            "solver_queries": sum(r.get("Queries", 0) for r in reports),
            "solver_seconds": round(sum(r.get("SolverSecs", 0) for r in reports), 2),
            "native_replays": nrep,
            "conformance_cases": conf_cases,
            "violations_confirmed": [{"harness": h, "label": l, "replay": p} for h, l, p, _ in violations],
            "known_findings_hit": [{"id": k["id"], "harness": h, "label": l} for k, h, l in known_hits],
            "unconfirmed_counterexamples": unconfirmed,
            "inconclusive": inconclusive,
            "harness_files_excluded": EXCLUDED,
            "incomplete_harnesses": [{"harness": h, "reasons": w} for h, w in incomplete],
        },
        "assumptions": spec.get("assumptions", []),
        "wall_s": round(wall, 2),
        "violations": len(violations),
    }
    os.makedirs(os.path.join(VERIF, "evidence"), exist_ok=True)
    json.dump(ev, open(os.path.join(VERIF, "evidence", pid + ".json"), "w"), indent=1, default=str)


if __name__ == "__main__":
    main()
