#!/bin/bash
# usage: seedtest.sh <PROP> <x> <demo-pkg-dir-relative-to-repo> [tier]
# Confirms a seeded change (compiles, suite green, demo fails with / passes without), stores it under
# /verif/seeded/<PROP>-<x>/ and runs the property's check against /repo with the change applied.
set -u
export GOFLAGS=-mod=mod GOPROXY=off GOSUMDB=off GOTOOLCHAIN=local
P=$1; X=$2; PKG=$3; TIER=${4:-quick}
SRC=${SEEDROOT:-/tmp/seed}/$P/out/$X
DST=/verif/seeded/$P-${TAG:-}$X
mkdir -p $DST
cp $SRC/patch.diff $DST/patch.diff; cp $SRC/zz_demo_test.go $DST/; cp $SRC/notes.md $DST/ 2>/dev/null
W=$(mktemp -d /tmp/seedw.XXXX); rmdir $W
git -C /repo worktree add -q --detach $W HEAD || exit 9
MODDIR=$W; case $PKG in v2*) MODDIR=$W/v2;; esac
T=$(mktemp -d); cp $MODDIR/go.mod $MODDIR/go.sum $T/
res() { echo "$1" | tee -a $DST/confirm.log; }
: > $DST/confirm.log
# demo on original
mkdir -p $W/$PKG; cp $DST/zz_demo_test.go $W/$PKG/
(cd $W/$PKG && go test ${RACE:+-race} -modfile $T/go.mod -vet=off -count=1 -run 'Demo|ZZ|Zz|zz' -timeout 120s . >$T/o1 2>&1); r1=$?
res "demo on original tree: exit $r1 (expect 0)"
rm $W/$PKG/zz_demo_test.go
if ! git -C $W apply $DST/patch.diff; then res "PATCH DOES NOT APPLY"; git -C /repo worktree remove --force $W; exit 8; fi
(cd $MODDIR && go build -modfile $T/go.mod ./... >$T/b 2>&1); res "build with change: exit $?"
(cd $MODDIR && go test -modfile $T/go.mod -vet=off -count=1 ./... >$T/t 2>&1); rt=$?
res "existing suite with change: exit $rt; failing packages: $(grep -c '^FAIL' $T/t) ($(grep '^FAIL' $T/t | grep -v 'licenseclassifier\s' | head -3 | tr '\n' ' '))"
mkdir -p $W/$PKG; cp $DST/zz_demo_test.go $W/$PKG/
(cd $W/$PKG && go test ${RACE:+-race} -modfile $T/go.mod -vet=off -count=1 -run 'Demo|ZZ|Zz|zz' -timeout 120s . >$T/o2 2>&1); r2=$?
res "demo with change: exit $r2 (expect non-zero)"
git -C /repo worktree remove --force $W; rm -rf $T
# now our check on /repo itself
git -C /repo apply $DST/patch.diff || { res "apply to /repo failed"; exit 7; }
cp /verif/evidence/$P.json /tmp/seed_evidence_$P.json 2>/dev/null
(cd /verif && ./check $P $TIER > $DST/check_$TIER.log 2>&1); rc=$?
cp /verif/evidence/$P.json $DST/evidence_$TIER.json 2>/dev/null
cp /tmp/seed_evidence_$P.json /verif/evidence/$P.json 2>/dev/null
git -C /repo checkout -- . 
res "check $P $TIER with change: exit $rc; $(grep -c '^VIOLATION' $DST/check_$TIER.log) VIOLATION lines; $(grep '^VIOLATION' $DST/check_$TIER.log | head -2 | cut -c1-160)"
git -C /repo status --short | head -3
