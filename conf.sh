#!/bin/bash
# usage: conf.sh <moddir> <pkgrel> <harnessdir> <harness>
set -e
export GOFLAGS=-mod=mod GOPROXY=off GOSUMDB=off GOTOOLCHAIN=local
MOD=$1; PKG=$2; HD=$3; H=$4
T=$(mktemp -d); trap "rm -rf $T" EXIT
cp $MOD/go.mod $MOD/go.sum $T/
python3 - "$MOD/$PKG" "$HD" "$T/ov.json" <<'PY'
import json,glob,os,sys
m={}
for f in glob.glob(sys.argv[2]+'/*.go'):
    m[os.path.normpath(sys.argv[1]+'/'+os.path.basename(f))]=f
json.dump({"Replace":m},open(sys.argv[3],'w'))
PY
/verif/bin/gosx -dir $MOD -pkg $PKG -harness-dir $HD -harness $H -workers 1 -modfile $T/go.mod -json $T/e.json >/dev/null 2>$T/err || { cat $T/err; }
(cd $MOD/$PKG && VX_EMIT=$H VX_EMIT_OUT=$T/n.json go test -tags verif -overlay $T/ov.json -modfile $T/go.mod -vet=off -count=1 -run 'TestVxEmit' . >$T/nout 2>&1) || { cat $T/nout; exit 2; }
python3 - $T/e.json $T/n.json <<'PY'
import json,sys
r=json.load(open(sys.argv[1]))[0]
a=r['Emitted'] or []
b=json.load(open(sys.argv[2])) or []
if r.get('EngineError'): print("ENGINE ERROR",r['EngineError'])
bad=0
for i in range(max(len(a),len(b))):
    x=a[i] if i<len(a) else None; y=b[i] if i<len(b) else None
    if x!=y:
        bad+=1; print("DIFF\n E:",repr(x),"\n N:",repr(y))
print("conformance", "OK" if bad==0 and a else "FAILED", len(a), "items")
sys.exit(1 if bad or not a else 0)
PY
