//go:build verif

package classifier

func init() {
	vxRegister("H11aQ", H11aQ)
	vxRegister("H11aT", H11aT)
	vxRegister("H11http", H11http)
	vxRegister("H11long", H11long)
	vxRegister("H11pad", H11pad)
	vxRegister("H11dash", H11dash)
	vxRegister("H11tmpl", H11tmpl)
}

func H11aQ() { h11a(vxBytes(2), "n2") }
func H11aT() { h11a(vxBytes(3), "n3") }

// H11tmpl: hyphen / newline / notice templates around 3 symbolic bytes.
func H11tmpl() {
	k := vxChoice(5)
	s := vxBytes(3)
	// exclusion of the known class C11-trailing-hyphen-token (a cleaned token that itself ends in a
	// hyphen at a line end): the symbolic bytes are not hyphens; the templates supply the hyphens
	for _, b := range s {
		vxAssume(vxAnd(b != '-', b != 0xE2))
	}
	var in []byte
	switch k {
	case 0:
		in = append(append([]byte("ab-\n"), s[:2]...), append([]byte("\n"), s[2:]...)...)
	case 1:
		in = append(append([]byte("ab-\ncd\nef "), s...), " gh\n"...)
	case 2:
		in = append(append(append([]byte{}, s[0], '-', '\n', s[1], '\n'), s[2]), " x\ny"...)
	case 3:
		in = append(append([]byte("Copyright 2020 x\nab cd\n"), s...), "\nz"...)
	default:
		in = append(append([]byte("\n\n1. ab\n"), s...), " q\n"...)
	}
	h11a(in, "tmpl")
}

// H11dash: the known class - a digit-initial word keeps its trailing hyphen when cleaned ("3-)" -> "3-"),
// and Normalize puts it at a line end where the second pass joins it with the next line.
func H11dash() { h11a([]byte("ab cd\n3-)\nz"), "dash") }

// H11pad: the input is indented so that its symbolic bytes straddle the read-buffer boundary; Normalize
// drops the indentation, so the two passes see the bytes at different buffer positions.
func H11pad() {
	pad := 1014 + vxChoice(9)
	in := make([]byte, 0, pad+40)
	for i := 0; i < pad; i++ {
		in = append(in, ' ')
	}
	in = append(in, vxBytes(2)...)
	in = append(in, " tail of the line\nzz yy\n"...)
	h11a(in, "pad")
}

// H11long: a text longer than the read buffer whose normalized form is shorter by 1..3 bytes, so that
// the symbolic bytes sit at the 1020-byte boundary in one pass and just before it in the other.
func H11long() {
	lead := vxChoice(4)
	in := make([]byte, 0, 1100)
	for i := 0; i < lead; i++ {
		in = append(in, ' ')
	}
	for i := 0; i < 339; i++ {
		in = append(in, "ab "...)
	}
	// 1017..1021 bytes of words before the symbolic bytes: they meet the boundary in the input, in
	// the normalized text, in both or in neither
	in = append(in, []string{"", "c ", "cd ", "c d "}[vxChoice(4)]...)
	in = append(in, vxBytes(2)...)
	in = append(in, " tail of the line\nzz yy\n"...)
	h11a(in, "long")
}

// H11http: the known re-normalisation class (a cleaned token that contains "https").
func H11http() { h11a(append([]byte("http://s"), vxBytes(1)...), "http") }

// h11a: Normalize(x) tokenizes like x (same words on the same lines), and line k of the
// normalized text holds the words Match attributes to line k.
func h11a(x []byte, tag string) {
	c := NewClassifier(0.8)
	norm := c.Normalize(x)
	bx := vxTokenizeBytes(x)
	bn := vxTokenizeBytes(norm)
	vxAssert("norm-word-count", len(bx.words) == len(bn.words))
	if len(bx.words) == len(bn.words) {
		for i := range bx.words {
			vxAssert("norm-word", bx.words[i] == bn.words[i])
			vxAssert("norm-line", bx.lines[i] == bn.lines[i])
		}
	}
	vxCover("end")
}
