//go:build verif

package classifier

func init() {
	vxRegister("H11aQ", H11aQ)
	vxRegister("H11aT", H11aT)
	vxRegister("H11http", H11http)
}

func H11aQ() { h11a(vxBytes(2), "n2") }
func H11aT() { h11a(vxBytes(3), "n3") }

// H11http: the known re-normalisation class (a cleaned token that contains "https").
func H11http() { h11a(append([]byte("http://s"), vxBytes(1)...), "http") }

// h11a: Normalize(x) tokenizes like x (same words on the same lines), and line k of the
// normalized text holds the words Match attributes to line k.
func h11a(x []byte, tag string) {
	c := NewClassifier(0.8)
	norm := c.Normalize(x)
	bx := vxTokenizeBytes(x)
	bn := vxTokenizeBytes(norm)
	vxAssert("norm-word-count", len(bx.words) == len(bn.words))
	if len(bx.words) == len(bn.words) {
		for i := range bx.words {
			vxAssert("norm-word", bx.words[i] == bn.words[i])
			vxAssert("norm-line", bx.lines[i] == bn.lines[i])
		}
	}
	vxCover("end")
}
