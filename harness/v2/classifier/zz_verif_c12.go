//go:build verif

package classifier

import (
	"errors"
	"os"
	"path/filepath"
	"sort"
	"strings"
	"time"
)

func init() {
	vxRegister("H12aQ", H12aQ)
	vxRegister("H12aT", H12aT)
}

// virtual file system: slash-separated absolute paths -> content ("" key suffix "/" = directory)
type vxFS struct {
	cwd   string
	files map[string]string // absolute path -> content
	dirs  map[string]bool
}

type vxFileInfo struct {
	name string
	dir  bool
	size int64
}

func (f vxFileInfo) Name() string { return f.name }
func (f vxFileInfo) Size() int64  { return f.size }
func (f vxFileInfo) Mode() os.FileMode {
	if f.dir {
		return os.ModeDir | 0o755
	}
	return 0o644
}
func (f vxFileInfo) ModTime() time.Time { return time.Time{} }
func (f vxFileInfo) IsDir() bool        { return f.dir }
func (f vxFileInfo) Sys() interface{}   { return nil }

var vxNotExist = errors.New("vx: file does not exist")

func (fs *vxFS) abs(p string) string {
	if !strings.HasPrefix(p, "/") {
		p = fs.cwd + "/" + p
	}
	return filepath.Clean(p)
}

func (fs *vxFS) addFile(abs, content string) {
	fs.files[abs] = content
	for d := filepath.Dir(abs); ; d = filepath.Dir(d) {
		fs.dirs[d] = true
		if d == "/" || d == "." {
			break
		}
	}
}

func (fs *vxFS) install(record *[][4]string) {
	vxStub("os.Lstat", func(name string) (os.FileInfo, error) {
		a := fs.abs(name)
		if fs.dirs[a] {
			return vxFileInfo{name: filepath.Base(a), dir: true}, nil
		}
		if c, ok := fs.files[a]; ok {
			return vxFileInfo{name: filepath.Base(a), size: int64(len(c))}, nil
		}
		return nil, vxNotExist
	})
	vxStub("path/filepath.readDirNames", func(dirname string) ([]string, error) {
		a := fs.abs(dirname)
		if !fs.dirs[a] {
			return nil, vxNotExist
		}
		seen := map[string]bool{}
		var names []string
		add := func(p string) {
			if filepath.Dir(p) == a && p != a && !seen[p] {
				seen[p] = true
				names = append(names, filepath.Base(p))
			}
		}
		for p := range fs.files {
			add(p)
		}
		for p := range fs.dirs {
			add(p)
		}
		sort.Strings(names)
		return names, nil
	})
	rd := func(name string) ([]byte, error) {
		if c, ok := fs.files[fs.abs(name)]; ok {
			return []byte(c), nil
		}
		return nil, vxNotExist
	}
	vxStub("io/ioutil.ReadFile", rd)
	vxStub("os.ReadFile", rd)
	vxStub("(*github.com/google/licenseclassifier/v2.Classifier).AddContent", func(c *Classifier, category, name, variant string, content []byte) {
		*record = append(*record, [4]string{category, name, variant, string(content)})
	})
}

func (fs *vxFS) uninstall() {
	for _, n := range []string{"os.Lstat", "path/filepath.readDirNames", "io/ioutil.ReadFile", "os.ReadFile",
		"(*github.com/google/licenseclassifier/v2.Classifier).AddContent"} {
		vxUnstub(n)
	}
}

func H12aQ() { h12a(2) }
func H12aT() { vxC12Wide = true; h12a(2) }

var vxC12Wide = false

// h12a: LoadLicenses over a virtual tree - no panic for any tree shape or spelling of the directory;
// shallow files and files not ending in "txt" are ignored; a tree whose remaining files sit at
// category/name/variant depth yields exactly one AddContent(category, name, variant, bytes) per file.
func h12a(nfiles int) {
	root := "/home/u/a/d"
	realRoot := ""
	if vxNative() {
		// native replay: the same tree is created under a temporary directory
		tmp, err := os.MkdirTemp("", "vxc12")
		if err != nil {
			panic(err)
		}
		defer os.RemoveAll(tmp)
		realRoot = tmp
		root = tmp + "/a/d"
	}
	fs := &vxFS{cwd: filepath.Dir(filepath.Dir(root)), files: map[string]string{}, dirs: map[string]bool{}}
	comps := []string{"License", "X", "l", "m", "deep", "Plaintxt"}
	sufs := []string{".txt", "txt", ".md"}
	if vxC12Wide {
		sufs = append(sufs, "")
	}
	type exp struct{ cat, name, variant, content string }
	var want []exp
	exact := true
	for i := 0; i < nfiles; i++ {
		depth := vxChoice(4) + 1 // 1..4 components below the root
		suf := sufs[vxChoice(len(sufs))]
		first := 0
		if vxC12Wide {
			first = vxChoice(len(comps))
		} else {
			first = []int{0, 3, 5}[vxChoice(3)]
		}
		var parts []string
		for d := 0; d < depth; d++ {
			parts = append(parts, comps[(first+d)%len(comps)])
		}
		parts[depth-1] = parts[depth-1] + string(rune('0'+i)) + suf
		rel := strings.Join(parts, "/")
		content := "content " + string(rune('0'+i))
		fs.addFile(root+"/"+rel, content)
		endsTxt := strings.HasSuffix(rel, "txt")
		if endsTxt && depth == 3 {
			want = append(want, exp{parts[0], parts[1], parts[2], content})
		}
		if endsTxt && depth > 3 {
			exact = false // deeper files: the property makes no equivalence claim for such trees
		}
	}
	fs.dirs[root] = true
	rels := []string{"", "/", "a/d", "a/d/", "./a/d", "./a/d/", "a//d", "a/./d", "a/d/."}
	si := vxChoice(len(rels))
	spelling := rels[si]
	if si < 2 {
		spelling = root + spelling
	}
	check := func(tag string, got [][4]string, err error) {
		vxAssert(tag+"no-error", err == nil)
		if !exact {
			return
		}
		vxAssert(tag+"one-addcontent-per-file", len(got) == len(want))
		if len(got) == len(want) {
			for _, w := range want {
				found := 0
				for _, g := range got {
					if g[0] == w.cat && g[1] == w.name && g[2] == w.variant && g[3] == w.content {
						found++
					}
				}
				vxAssert(tag+"addcontent-arguments", found == 1)
			}
		}
	}
	if vxNative() {
		// real files, real Walk; what was loaded is read back from the classifier
		for p, c := range fs.files {
			os.MkdirAll(filepath.Dir(p), 0o755)
			os.WriteFile(p, []byte(c), 0o644)
		}
		os.MkdirAll(root, 0o755)
		load := func(cwd, dir string) ([][4]string, error) {
			old, _ := os.Getwd()
			os.Chdir(cwd)
			defer os.Chdir(old)
			c := NewClassifier(0.8)
			err := c.LoadLicenses(dir)
			var got [][4]string
			for name, d := range c.docs {
				parts := strings.Split(name, "/")
				got = append(got, [4]string{parts[0], parts[1], parts[2], d.Norm + " "})
			}
			return got, err
		}
		// contents are compared through their normalised token text
		for i := range want {
			want[i].content = NewClassifier(0.8).createTargetIndexedDocumentNorm(want[i].content)
		}
		got, err := load(realRoot, spelling)
		check("", got, err)
		got2, err2 := load(root, ".")
		check("dot-", got2, err2)
		return
	}
	var got [][4]string
	fs.install(&got)
	c := NewClassifier(0.8)
	err := c.LoadLicenses(spelling)
	fs.uninstall()
	check("", got, err)
	// the process directory itself as the corpus directory
	var got2 [][4]string
	fs2 := &vxFS{cwd: root, files: fs.files, dirs: fs.dirs}
	fs2.install(&got2)
	err = NewClassifier(0.8).LoadLicenses(".")
	fs2.uninstall()
	check("dot-", got2, err)
	vxCover("end")
}

// createTargetIndexedDocumentNorm gives the normalised text a document gets when added (native replay only).
func (c *Classifier) createTargetIndexedDocumentNorm(content string) string {
	c.AddContent("x", "y", "z", []byte(content))
	return c.docs["x/y/z"].Norm + " "
}
