//go:build verif

package classifier

import (
	"bytes"
)

func init() {
	vxRegister("H03t2", func() { h03t(2) })
	vxRegister("H03t3", func() { h03t(3) })
	vxRegister("H03t4", func() { h03t(4) })
	vxRegister("H03tmpl", H03tmpl)
}

// H03tmpl: templates that drive the hyphen / newline state machine, around 3 symbolic bytes.
func H03tmpl() {
	k := vxChoice(5)
	s := vxBytes(3)
	var in []byte
	switch k {
	case 0:
		in = append(append([]byte("ab-\n"), s[:2]...), append([]byte("\n"), s[2:]...)...)
	case 1:
		in = append([]byte("ab-\n\n"), s...)
	case 2:
		in = append(append(append([]byte{}, s[0], '-', '\n', s[1], '\n'), s[2]), " x\ny"...)
	case 3:
		in = append(append([]byte("Copyright 2020 x\nab-\ncd\n"), s...), "\nz"...)
	default:
		in = append(append([]byte("a-\nb-\nc\n"), s...), " q\n"...)
	}
	h03tIn(in)
}

func H03t1() { h03t(1) }
func H03t2() { h03t(2) }
func H03t3() { h03t(3) }
func H03t4() { h03t(4) }

// h03t: tokenizer post-conditions on n symbolic bytes (L2 of DESIGN.md).
func h03t(n int) { h03tIn(vxBytes(n)) }

func h03tIn(in []byte) {
	nl := 0
	for _, b := range in {
		if b == '\n' {
			nl++
		}
	}
	dict := newDictionary()
	dict.add("a")
	dict.add("b")
	d, err := tokenizeStream(bytes.NewReader(in), true, dict, false)
	vxAssert("no-error", err == nil)
	prev := 1
	for _, t := range d.Tokens {
		vxAssert("id-in-dict", t.ID >= 0 && int(t.ID) <= len(dict.words))
		vxAssert("line-range", t.Line >= 1 && t.Line <= nl+1)
		vxAssert("line-monotone", t.Line >= prev)
		prev = t.Line
	}
	for _, m := range d.Matches {
		vxAssert("copyright-conf", m.Confidence == 1.0)
		vxAssert("copyright-line", m.StartLine == m.EndLine && m.StartLine >= 1 && m.StartLine <= nl+1)
	}
	vxCover("end")
}
