//go:build verif

package classifier

import (
	"bytes"
	"fmt"
	"unicode"
)

func HDbg() {
	vxEmit("isl", fmt.Sprint(unicode.IsLetter('h'), unicode.ToLower('H'), unicode.IsSpace(' ')))
	dict := newDictionary()
	d, _ := tokenizeStream(bytes.NewReader([]byte("hi yo")), true, dict, true)
	vxEmit("n", fmt.Sprintf("%d %d", len(d.Tokens), len(dict.words)))
	ld := newDictionary()
	id := flushBuf(0, []byte("hi"), true, ld)
	vxEmit("fb", fmt.Sprintf("%d %q", id, ld.getWord(id)))
	toks, m := stringifyLineBuf(dict, 1, []tokenID{id}, ld, true, true)
	vxEmit("slb", fmt.Sprintf("%d %v", len(toks), m == nil))
	vxEmit("ct", cleanupToken(0, "hi", true))
}
