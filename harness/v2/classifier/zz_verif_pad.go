//go:build verif

package classifier

import "strings"

func init() {
	vxRegister("H01pad", H01pad)
	vxRegister("H01hy", H01hy)
	vxRegister("H02pad", H02pad)
	vxRegister("H07pad", H07pad)
}

// A document with multi-byte letters, matched from inputs whose text is moved across the 1020/1024
// byte read-buffer boundary by leading blanks: every input family is also placed "across the buffer".
var vxAccentDoc = []string{"café", "naïve", "résumé", "über", "piñata", "crème", "façade", "été"}

// vxPadCase builds (classifier, words of X, padded input, unpadded input).
func vxPadCase(edit bool) (*Classifier, []string, []byte, []byte) {
	t := []float64{0.7, 0.8}[vxChoice(2)]
	c := NewClassifier(t)
	c.AddContent("License", "Accent", "v.txt", []byte(strings.Join(vxAccentDoc, " ")))
	X := append([]string(nil), vxAccentDoc...)
	if edit {
		p := vxChoice(len(X))
		switch vxChoice(3) {
		case 0: // the same word with one more accented letter: must not compare equal
			X[p] = X[p] + "é"
		case 1: // the word without its accents
			X[p] = strings.Map(func(r rune) rune {
				if r > 0x7f {
					return -1
				}
				return r
			}, X[p])
		case 2:
			X[p] = "zzz"
		}
	}
	body := "qqq\n" + strings.Join(X, " ") + "\nzzz yyy and more text to fill the read buffer completely\nend of text\n"
	pad := 960 + vxChoice(66) // the first word starts at byte 964..1029 of the stream
	padded := strings.Repeat(" ", pad) + body
	return c, X, []byte(padded), []byte(body)
}

// H07pad: leading blanks that move X across the read-buffer boundary do not change the results.
func H07pad() {
	c, _, padded, plain := vxPadCase(vxBool())
	vxSameResults("pad-shift", c.Match(plain), c.Match(padded))
	vxCover("end")
}

// H01pad: a verbatim copy placed across the read-buffer boundary is found whole at confidence 1.0.
func H01pad() {
	c, X, padded, _ := vxPadCase(false)
	r := c.Match(padded)
	found := false
	for _, m := range r.Matches {
		if m.Name == "Accent" && m.StartTokenIndex == 1 && m.EndTokenIndex == len(X) {
			found = true
			vxAssert("planted-confidence-1", m.Confidence == 1.0)
			vxAssert("planted-lines", m.StartLine == 2 && m.EndLine == 2)
		}
	}
	vxAssert("planted-copy-found-whole", found)
	vxCover("end")
}

// H01hy: a corpus document that itself contains a hyphenated line break with an indented continuation
// line, planted verbatim so that the break, the indentation or the continuation meets the buffer boundary.
func H01hy() {
	raw := "alpha soft-\n      ware beta gamma delta epsilon zeta"
	t := []float64{0.7, 0.8}[vxChoice(2)] // 7 words: at least the minimum run length for both
	c := NewClassifier(t)
	c.AddContent("License", "Hy", "v.txt", []byte(raw))
	pad := 990 + vxChoice(40)
	in := strings.Repeat(" ", pad) + "\n" + raw + "\nqqq rrr sss ttt and more text to fill the buffer\n"
	found := false
	for _, m := range c.Match([]byte(in)).Matches {
		if m.Name == "Hy" {
			found = true
			vxAssert("planted-confidence-1", m.Confidence == 1.0)
			vxAssert("planted-span", m.StartTokenIndex == 0 && m.EndTokenIndex == 6)
		}
	}
	vxAssert("planted-copy-found-whole", found)
	vxCover("end")
}

// H02pad: the confidence of an edited copy placed across the boundary never overstates the similarity;
// the words of the span are known by construction (not re-tokenized).
func H02pad() {
	c, X, padded, _ := vxPadCase(true)
	words := append(append([]string{"qqq"}, X...), strings.Fields("zzz yyy and more text to fill the read buffer completely end of text")...)
	for _, m := range c.Match(padded).Matches {
		if m.MatchType == "Copyright" {
			continue
		}
		vxAssert("span-inside", m.StartTokenIndex >= 0 && m.EndTokenIndex < len(words))
		if m.EndTokenIndex >= len(words) {
			continue
		}
		R := words[m.StartTokenIndex : m.EndTokenIndex+1]
		L := vxLevenshtein(R, vxAccentDoc)
		vxAssert("confidence-not-overstated", m.Confidence <= 1.0-float64(L)/float64(len(vxAccentDoc)))
		if m.Confidence == 1.0 {
			vxAssert("exact-only-if-identical", L == 0)
		}
	}
	vxCover("end")
}
