//go:build verif

package classifier

func init() {
	vxRegister("H08aQ", H08aQ)
	vxRegister("H08aT", H08aT)
	vxRegister("H08eQ", H08eQ)
	vxRegister("H08eT", H08eT)
	vxRegister("H08hQ", H08hQ)
}

// L1 recorders: the tokenizer state machine talks to the per-word pipeline only through
// flushBuf and appendToDoc; under the engine both are replaced by recorders so that the
// comparison is about where bytes sit, not about what a word is.
type vxFlush struct {
	pos  int
	word string
}
type vxAppend struct {
	line int
	ids  []tokenID
}

var vxRecF []vxFlush
var vxRecA []vxAppend

func vxInstallRecorders() {
	vxRecF, vxRecA = nil, nil
	vxStub("github.com/google/licenseclassifier/v2.flushBuf", func(pos int, obuf []byte, normalizeWord bool, ld *dictionary) tokenID {
		vxRecF = append(vxRecF, vxFlush{pos, string(obuf)})
		return tokenID(len(vxRecF))
	})
	vxStub("github.com/google/licenseclassifier/v2.appendToDoc", func(doc *indexedDocument, dict *dictionary, line int, in []tokenID, ld *dictionary, normalize bool, updateDict bool, linebuf []tokenID) {
		vxRecA = append(vxRecA, vxAppend{line, append([]tokenID(nil), in...)})
		for _, id := range in {
			doc.Tokens = append(doc.Tokens, indexedToken{Line: line, ID: id})
		}
	})
}

func vxRemoveRecorders() {
	vxUnstub("github.com/google/licenseclassifier/v2.flushBuf")
	vxUnstub("github.com/google/licenseclassifier/v2.appendToDoc")
}

func vxSameRecording(tag string, f1 []vxFlush, a1 []vxAppend, f2 []vxFlush, a2 []vxAppend) {
	vxAssert(tag+"-flush-count", len(f1) == len(f2))
	if len(f1) == len(f2) {
		for i := range f1 {
			vxAssert(tag+"-flush-pos", f1[i].pos == f2[i].pos)
			vxAssert(tag+"-flush-word", f1[i].word == f2[i].word)
		}
	}
	vxAssert(tag+"-append-count", len(a1) == len(a2))
	if len(a1) == len(a2) {
		for i := range a1 {
			vxAssert(tag+"-append-line", a1[i].line == a2[i].line)
			vxAssert(tag+"-append-len", len(a1[i].ids) == len(a2[i].ids))
		}
	}
}

var vxChunkMenu = []int{1, 3, 1020, 1021, 4096}

func H08aQ() { h08a(2, false) }
func H08aT() { h08a(3, true) }

// h08a: real bufSize; content = P spaces + W symbolic bytes + "\n"; the reader fragments
// arbitrarily (menu) and may deliver the last chunk together with EOF.  Padding and
// fragmentation must not change what the tokenizer produces.
func h08a(w int, thorough bool) {
	content := vxBytes(w)
	var pads []int
	for p := 1024 - 4 - w - 1; p <= 1024; p++ {
		pads = append(pads, p)
	}
	if thorough {
		// second refill: content just before, across and after the boundary
		pads = append(pads, 2044-4-w, 2044-4-1, 2044, 0)
	}
	pad := pads[vxChoice(len(pads))]
	data := make([]byte, 0, pad+w+32)
	for i := 0; i < pad; i++ {
		data = append(data, ' ')
	}
	data = append(data, content...)
	// enough trailing text that the buffer is full when the content reaches the 1020/1024 boundary
	tail := " tail of the line\nzz\n"
	data = append(data, tail...)
	r := &vxChunkReader{data: data, failAt: -1}
	if thorough {
		// one-byte and 1020-byte first reads stay with the 2-byte content (H08aQ, also in this tier)
		r.chunks = []int{[]int{1021, 4096}[vxChoice(2)], []int{3, 4096}[vxChoice(2)]}
	} else {
		r.chunks = []int{[]int{1, 1020, 1021, 4096}[vxChoice(4)], []int{3, 4096}[vxChoice(2)]}
	}
	r.eofWithData = vxBool()
	ref := append(append([]byte{}, content...), tail...)
	if vxNative() {
		got, err := vxTokenize(r)
		vxAssert("no-error", err == nil)
		vxSameDoc("stream", vxTokenizeBytes(ref), got, true)
		return
	}
	vxInstallRecorders()
	_, err := vxTokenize(r)
	vxAssert("no-error", err == nil)
	f1, a1 := vxRecF, vxRecA
	vxRecF, vxRecA = nil, nil
	vxTokenizeBytes(ref)
	vxSameRecording("stream", vxRecF, vxRecA, f1, a1)
	vxRemoveRecorders()
	vxCover("end")
}

// H08hQ: the deferred end-of-line state (a word hyphenated across a line break) while the read
// buffer is refilled: "ab-" LF + 2 symbolic bytes + "cd" or " cd", padded so that the symbolic bytes sit
// before, across and after the 1020/1024 boundary.  The whole real pipeline runs on both sides (no
// recorders), so a multi-byte rune decoded twice after the carry-over shows as a different document.
func H08hQ() {
	content := append([]byte("ab-\n"), vxBytes(2)...)
	// with and without further indentation after the symbolic bytes: a rune that ends the deferred
	// state early only matters when white space follows
	content = append(content, []string{"cd tail of the line\nzz\n", " cd tail of the line\nzz\n"}[vxChoice(2)]...)
	pad := 1013 + vxChoice(9)
	data := make([]byte, 0, pad+len(content))
	for i := 0; i < pad; i++ {
		data = append(data, ' ')
	}
	data = append(data, content...)
	r := &vxChunkReader{data: data, failAt: -1}
	r.chunks = []int{[]int{1, 4096}[vxChoice(2)], 4096}
	r.eofWithData = vxBool()
	got, err := vxTokenize(r)
	vxAssert("no-error", err == nil)
	vxSameDoc("stream-hyphen", vxTokenizeBytes(content), got, true)
	vxCover("end")
}

func H08eQ() { h08e(1) }
func H08eT() { h08e(2) }

// h08e: a reader fault after k bytes surfaces as that error and no results.
func h08e(w int) {
	c := NewClassifier(0.8)
	c.AddContent("License", "A", "a.txt", []byte("a b c d e f"))
	content := vxBytes(w)
	pad := []int{0, 1018, 1024}[vxChoice(3)]
	data := make([]byte, 0, pad+w+12)
	for i := 0; i < pad; i++ {
		data = append(data, ' ')
	}
	data = append(data, content...)
	data = append(data, " a b c d e f"...)
	ks := []int{0, 1, pad, pad + 1, pad + w, 1019, 1020, 1021, 1024, 1025, len(data) - 1, len(data)}
	k := ks[vxChoice(len(ks))]
	if k > len(data) {
		k = len(data)
	}
	r := &vxChunkReader{data: data, failAt: k}
	r.chunks = []int{[]int{1, 1020, 4096}[vxChoice(3)]}
	res, err := c.MatchFrom(r)
	vxAssert("error-surfaces", err == vxErr)
	vxAssert("no-partial-results", len(res.Matches) == 0 && res.TotalInputLines == 0)
	// and without a fault the same bytes are matched as by Match
	r2 := &vxChunkReader{data: data, failAt: -1, chunks: []int{3}}
	res2, err2 := c.MatchFrom(r2)
	vxAssert("no-fault-no-error", err2 == nil)
	ref := c.Match(data)
	vxAssert("matchfrom-equals-match", len(res2.Matches) == len(ref.Matches) && res2.TotalInputLines == ref.TotalInputLines)
	if len(res2.Matches) == len(ref.Matches) {
		for i := range ref.Matches {
			vxAssert("matchfrom-equals-match-fields", *res2.Matches[i] == *ref.Matches[i])
		}
	}
	vxCover("end")
}
