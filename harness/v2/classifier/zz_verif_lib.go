//go:build verif

package classifier

import (
	"bytes"
	"io"
)

// vxDoc is what Match sees of an input (lemma L0): the cleaned word texts with
// their lines, and the lines of the Copyright pseudo-matches.
type vxDoc struct {
	words []string
	lines []int
	cr    []int
}

func vxTokenize(r io.Reader) (vxDoc, error) {
	dict := newDictionary()
	d, err := tokenizeStream(r, true, dict, true)
	if err != nil {
		return vxDoc{}, err
	}
	var out vxDoc
	for _, t := range d.Tokens {
		out.words = append(out.words, dict.getWord(t.ID))
		out.lines = append(out.lines, t.Line)
	}
	for _, m := range d.Matches {
		out.cr = append(out.cr, m.StartLine)
	}
	return out, nil
}

func vxTokenizeBytes(in []byte) vxDoc {
	d, _ := vxTokenize(bytes.NewReader(in))
	return d
}

// vxSameDoc asserts that two inputs are indistinguishable to Match.
// lineShift: y's lines are expected to equal x's lines + lineShift(x line); nil means identical lines;
// checkLines=false skips line comparison (lines were added).
func vxSameDoc(tag string, x, y vxDoc, checkLines bool) {
	vxAssert(tag+"-word-count", len(x.words) == len(y.words))
	if len(x.words) != len(y.words) {
		return
	}
	for i := range x.words {
		vxAssert(tag+"-word", x.words[i] == y.words[i])
		if checkLines {
			vxAssert(tag+"-line", x.lines[i] == y.lines[i])
		}
	}
	vxAssert(tag+"-copyright-count", len(x.cr) == len(y.cr))
	if checkLines && len(x.cr) == len(y.cr) {
		for i := range x.cr {
			vxAssert(tag+"-copyright-line", x.cr[i] == y.cr[i])
		}
	}
}

// vxNoHyphenLineEnd assumes the property's own exemption: no line of x ends in a hyphen
// (ASCII '-' or one of the typographic hyphens the tokenizer maps to it) directly before the newline.
func vxNoHyphenLineEnd(x []byte) {
	ok := true
	for i := 1; i < len(x); i++ {
		nl := x[i] == '\n'
		ok = vxAnd(ok, vxImplies(nl, x[i-1] != '-'))
		if i >= 3 {
			typo := vxAnd(x[i-3] == 0xE2, vxAnd(x[i-2] == 0x80,
				vxOr(vxOr(x[i-1] == 0x90, x[i-1] == 0x92), vxOr(x[i-1] == 0x93, x[i-1] == 0x94))))
			ok = vxAnd(ok, vxImplies(nl, !typo))
		}
	}
	vxAssume(ok)
}

func vxInsert(x []byte, p int, ins string) []byte {
	y := make([]byte, 0, len(x)+len(ins))
	y = append(y, x[:p]...)
	y = append(y, ins...)
	y = append(y, x[p:]...)
	return y
}

func vxReplace(x []byte, p int, ins string) []byte {
	y := make([]byte, 0, len(x)+len(ins))
	y = append(y, x[:p]...)
	y = append(y, ins...)
	y = append(y, x[p+1:]...)
	return y
}

type vxChunkReader struct {
	data   []byte
	chunks []int // sizes to deliver per Read (then the rest)
	k      int
	eofWithData bool
	failAt int   // fail with vxErr once this many bytes were delivered (-1: never)
	given  int
}

type vxError struct{}

func (vxError) Error() string { return "vx reader fault" }

var vxErr error = vxError{}

func (r *vxChunkReader) Read(p []byte) (int, error) {
	if r.failAt >= 0 && r.given >= r.failAt {
		return 0, vxErr
	}
	if len(r.data) == 0 {
		return 0, io.EOF
	}
	n := len(p)
	if r.k < len(r.chunks) && r.chunks[r.k] < n {
		n = r.chunks[r.k]
	}
	r.k++
	if n > len(r.data) {
		n = len(r.data)
	}
	if r.failAt >= 0 && r.given+n > r.failAt {
		n = r.failAt - r.given
	}
	copy(p, r.data[:n])
	r.data = r.data[n:]
	r.given += n
	if len(r.data) == 0 && r.eofWithData {
		return n, io.EOF
	}
	return n, nil
}
