//go:build verif

package classifier

import (
	"io"
	"sort"
)

func init() {
	vxRegister("H01filter", H01filter)
	vxRegister("H01filterQ", H01filterQ)
	vxRegister("H01filterS", H01filterS)
	vxRegister("H01filterS2", H01filterS2)
	vxRegister("H01filter4", H01filter4)
	vxRegister("H01filter4Q", H01filter4Q)
}

// vxRefFilter is the reference model of the overlap filter at the end of match(): candidates sorted by
// (confidence desc, start asc, end desc, name, variant, type); a candidate is kept unless an already
// retained candidate line-contains it with at least its token weight, or overlaps it on lines other
// than "starts on the other's last line"; a kept candidate withdraws the retained candidates it
// line-contains with a smaller token weight.
func vxRefFilter(cands []*Match) []*Match {
	cs := append([]*Match(nil), cands...)
	sort.SliceStable(cs, func(i, j int) bool {
		a, b := cs[i], cs[j]
		if a.Confidence != b.Confidence {
			return a.Confidence > b.Confidence
		}
		if a.StartTokenIndex != b.StartTokenIndex {
			return a.StartTokenIndex < b.StartTokenIndex
		}
		if a.EndTokenIndex != b.EndTokenIndex {
			return a.EndTokenIndex > b.EndTokenIndex
		}
		if a.Name != b.Name {
			return a.Name < b.Name
		}
		if a.Variant != b.Variant {
			return a.Variant < b.Variant
		}
		return a.MatchType < b.MatchType
	})
	retain := make([]bool, len(cs))
	for i, c := range cs {
		keep := true
		var withdraw []int
		for j := 0; j < i && keep; j++ {
			o := cs[j]
			if !retain[j] {
				continue
			}
			cContainsO := c.StartLine <= o.StartLine && c.EndLine >= o.EndLine
			overlap := (o.StartLine <= c.StartLine && c.StartLine <= o.EndLine) || (o.StartLine <= c.EndLine && c.EndLine <= o.EndLine)
			if cContainsO {
				cw := float64(c.EndTokenIndex-c.StartTokenIndex) * c.Confidence
				ow := float64(o.EndTokenIndex-o.StartTokenIndex) * o.Confidence
				if cw > ow {
					withdraw = append(withdraw, j)
				} else if ow > cw {
					keep = false
				}
			} else if overlap {
				if c.StartLine != o.EndLine {
					keep = false
				}
			}
		}
		if keep {
			retain[i] = true
			for _, j := range withdraw {
				retain[j] = false
			}
		}
	}
	var out []*Match
	for i, k := range retain {
		if k {
			out = append(out, cs[i])
		}
	}
	return out
}

// H01filter: the real match() with its candidate generation replaced by arbitrary candidates
// (symbolic token ranges, confidences from a menu, three corpus documents) must retain exactly
// what the reference model of the overlap filter retains, in the same order.
func H01filter()  { h01filter([]string{"A", "B", "C"}, false) }
func H01filterQ() { h01filter([]string{"A", "B"}, false) }

// H01filterS: four candidates whose token ranges and confidences stay symbolic - the solver explores the
// behaviour classes of the filter instead of the 15 million concrete configurations.
func H01filterS() { h01filter([]string{"A", "B", "C", "D"}, true) }
func H01filterS2() { h01filter([]string{"A", "B"}, true) }

// H01filter4: four candidates that are all present, one token per line (4 lines), every range and
// confidence {0.8,1.0} enumerated (the float token-weight comparisons make the symbolic variant
// H01filterS cost one cvc5 query per comparison; it did not finish in 15 minutes): the smallest world in which a candidate can be rejected after proposing a withdrawal
// and a later one kept (withdrawal proposals must die with the rejected candidate).
func H01filter4() { h01filterN([]string{"A", "B", "C", "D"}, false, []int{1, 2, 3, 4}, true) }

// H01filter4Q: the same world on three lines with every range and confidence {0.8,1.0} enumerated.
func H01filter4Q() { h01filterN([]string{"A", "B", "C", "D"}, false, []int{1, 2, 3}, true) }

func h01filter(names []string, symbolic bool) {
	h01filterN(names, symbolic, []int{1, 1, 2, 3, 3, 4}, false)
}

func h01filterN(names []string, symbolic bool, lineOf []int, allPresent bool) {
	const T = 0.8
	c := NewClassifier(T)
	for _, n := range names {
		c.AddContent("License", n, "v.txt", []byte("w1 w2 w3 w4 w5 w6 w7 w8 w9 w10 w11 w12"))
	}
	N := len(lineOf) // input: one word per entry, on these lines
	confs := []float64{0.8, 1.0}
	type cand struct {
		start, end int
		conf       float64
	}
	want := map[string]cand{}
	var cands []*Match
	for _, n := range names {
		if !allPresent && vxChoice(2) == 0 {
			continue // this document proposes nothing
		}
		var s, e int
		var cf float64
		if symbolic {
			s, e = vxInt(0, N-1), vxInt(1, N)
			vxAssume(s < e)
			cf = []float64{0.8, 0.9, 1.0}[vxInt(0, 2)]
		} else {
			s = vxChoice(N)
			e = s + 1 + vxChoice(N-s)
			cf = confs[vxChoice(len(confs))]
		}
		want["License/"+n+"/v.txt"] = cand{s, e, cf}
		cands = append(cands, &Match{Name: n, Variant: "v.txt", MatchType: "License", Confidence: cf,
			StartLine: lineOf[s], EndLine: lineOf[e-1], StartTokenIndex: s, EndTokenIndex: e - 1})
	}
	stubTokenize := func(src io.Reader, normalize bool, dict *dictionary, updateDict bool) (*indexedDocument, error) {
		d := &indexedDocument{dict: dict}
		for i := 0; i < N; i++ {
			d.Tokens = append(d.Tokens, indexedToken{Line: lineOf[i], ID: dict.getIndex("w1")})
		}
		d.generateFrequencies()
		for _, t := range d.Tokens { // what tokenizeStream stores for go-diff
			d.runes = append(d.runes, tokenRune(t.ID))
		}
		d.Norm = d.normalized()
		return d, nil
	}
	stubPotential := func(c *Classifier, src, target *searchSet, confidence float64) matchRanges {
		w, ok := want[src.origin]
		if !ok {
			return nil
		}
		return matchRanges{{SrcStart: 0, SrcEnd: 12, TargetStart: w.start, TargetEnd: w.end, TokensClaimed: w.end - w.start}}
	}
	stubScore := func(c *Classifier, id string, unknown, known *indexedDocument, unknownStart, unknownEnd int) (float64, int, int) {
		return want[id].conf, 0, 0
	}
	// token similarity of the stub document against the corpus documents must pass the pre-filter
	stubSimilarity := func(d *indexedDocument, o *indexedDocument) float64 { return 1.0 }
	var r Results
	var err error
	if vxNative() {
		// native replay: the same stubs through the call-site wrappers of the overlaid copy of
		// classifier.go (native_hooks.json); without that overlay there is nothing to replay
		if !vxHooked {
			return
		}
		vxHooks.tokenize, vxHooks.similarity, vxHooks.potential, vxHooks.score = stubTokenize, stubSimilarity, stubPotential, stubScore
		r, err = c.match(nil)
		vxHooks.tokenize, vxHooks.similarity, vxHooks.potential, vxHooks.score = nil, nil, nil, nil
	} else {
		names := []string{"github.com/google/licenseclassifier/v2.tokenizeStream",
			"(*github.com/google/licenseclassifier/v2.Classifier).findPotentialMatches",
			"(*github.com/google/licenseclassifier/v2.Classifier).score",
			"(*github.com/google/licenseclassifier/v2.indexedDocument).tokenSimilarity"}
		vxStub(names[0], stubTokenize)
		vxStub(names[1], stubPotential)
		vxStub(names[2], stubScore)
		vxStub(names[3], stubSimilarity)
		r, err = c.match(nil)
		for _, n := range names {
			vxUnstub(n)
		}
	}
	vxAssert("no-error", err == nil)
	ref := vxRefFilter(cands)
	vxAssert("retained-count", len(r.Matches) == len(ref))
	if len(r.Matches) == len(ref) {
		for i := range ref {
			vxAssert("retained-match", *r.Matches[i] == *ref[i])
		}
	}
	if len(ref) < len(cands) {
		vxCover("something-filtered")
	}
	vxCover("end")
}
