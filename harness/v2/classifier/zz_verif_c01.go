//go:build verif

package classifier

import "github.com/sergi/go-diff/diffmatchpatch"

func init() {
	vxRegister("H01aQ", H01aQ)
	vxRegister("H01aT", H01aT)
	vxRegister("H01cQ", H01cQ)
	vxRegister("H01cT", H01cT)
	vxRegister("H01b", H01b)
	vxRegister("H01x", H01x)
	vxRegister("H01sameline", H01sameline)
}

type vxPlant struct {
	doc         int
	firstTok    int
	lastTok     int
	firstLine   int
	lastLine    int
}

// vxPlantLayout builds OOV^a · K1 · OOV^b [· K2 · OOV^c] with a line-break pattern and
// returns the text plus where each copy sits (token indices and lines, by construction).
func vxPlantLayout(ks []int, gaps []int, pattern int, ownLines bool) ([]byte, []vxPlant) {
	var words []string
	var plants []vxPlant
	var ends []int // last token of every block
	for i, g := range gaps {
		for j := 0; j < g; j++ {
			words = append(words, "")
		}
		ends = append(ends, len(words)-1)
		if i < len(ks) {
			p := vxPlant{doc: ks[i], firstTok: len(words)}
			words = append(words, vxFamily[ks[i]]...)
			p.lastTok = len(words) - 1
			plants = append(plants, p)
			ends = append(ends, len(words)-1)
		}
	}
	brk := make([]bool, len(words))
	for i := range brk {
		switch pattern {
		case 1:
			brk[i] = true
		case 2:
			brk[i] = i%2 == 1
		case 3:
			brk[i] = i%3 == 0
		}
	}
	if ownLines { // every block (copy or unrelated text) ends its line
		for _, e := range ends {
			if e >= 0 {
				brk[e] = true
			}
		}
	}
	line := 1
	lineOf := make([]int, len(words))
	for i := range words {
		lineOf[i] = line
		if brk[i] {
			line++
		}
	}
	for i := range plants {
		plants[i].firstLine = lineOf[plants[i].firstTok]
		plants[i].lastLine = lineOf[plants[i].lastTok]
	}
	return vxText(words, brk), plants
}

// vxRefQ is the minimum run length implied by the threshold, written down independently of the
// code under test (4 words at 0.8).
func vxRefQ(t float64) int {
	if t == 1.0 {
		return 10
	}
	q := int(t / (1.0 - t))
	if q < 1 {
		q = 1
	}
	return q
}

func vxCheckPlants(c *Classifier, r Results, plants []vxPlant) {
	for _, p := range plants {
		if len(vxFamily[p.doc]) < vxRefQ(c.threshold) {
			continue // shorter than the minimum run length implied by the threshold
		}
		found := false
		for _, m := range r.Matches {
			if m.Name == vxDocName(p.doc) && m.MatchType == "License" && m.Variant == "v.txt" &&
				m.StartTokenIndex == p.firstTok && m.EndTokenIndex == p.lastTok {
				found = true
				vxAssert("planted-confidence-1", m.Confidence == 1.0)
				vxAssert("planted-lines", m.StartLine == p.firstLine && m.EndLine == p.lastLine)
			}
		}
		vxAssert("planted-copy-found-whole", found)
	}
}

func H01aQ() { h01a(false) }
func H01aT() { h01a(true) }

// h01a: planted verbatim copies are found whole at confidence 1.0 for every threshold in
// [0.7,1.0] - the threshold is a symbolic float64.
func h01a(thorough bool) {
	t := vxFloat64(0.7, 1.0)
	worlds := [][]int{{1}, {8}, {9}, {0, 1}} // 8 words; 3 and 4 words (exactly the minimum run length near 0.8); prefix pair
	if thorough {
		worlds = append(worlds, []int{0}, []int{2, 3}, []int{7}, []int{5, 1}, []int{8, 9})
	}
	world := worlds[vxChoice(len(worlds))]
	c := vxBuildWorld(t, world...)
	ncopies := 1
	if thorough {
		ncopies = vxChoice(2) + 1
	}
	ks := make([]int, ncopies)
	gaps := make([]int, ncopies+1)
	for i := range ks {
		ks[i] = world[vxChoice(len(world))]
	}
	for i := range gaps {
		gaps[i] = vxChoice(2) + 1
	}
	pat := vxChoice(2)
	if thorough {
		pat = vxChoice(4)
	}
	in, plants := vxPlantLayout(ks, gaps, pat, true)
	r := c.Match(in)
	vxCheckPlants(c, r, plants)
	for _, m := range r.Matches {
		vxAssert("conf-at-least-threshold", m.Confidence >= t)
	}
	vxCover("end")
}

// H01x: a two-layout instance of h01a, run with GOSX_FPCHECK=1 in the thorough tier: every verdict
// of the floating-point pre-filter is confirmed by cvc5.
func H01x() {
	t := vxFloat64(0.7, 1.0)
	world := [][]int{{1}, {8}}[vxChoice(2)]
	c := vxBuildWorld(t, world...)
	in, plants := vxPlantLayout([]int{world[0]}, []int{1, 1}, 0, true)
	r := c.Match(in)
	vxCheckPlants(c, r, plants)
	for _, m := range r.Matches {
		vxAssert("conf-at-least-threshold", m.Confidence >= t)
	}
	vxCover("end")
}

func H01cQ() { h01c(false) }
func H01cT() { h01c(true) }

// h01c: the same with concrete thresholds and richer layouts (two copies, same or different documents).
func h01c(thorough bool) {
	ts := []float64{0.7, 0.8, 1.0}
	if thorough {
		ts = []float64{0.7, 0.75, 0.8, 0.9, 0.95, 1.0}
	}
	t := ts[vxChoice(len(ts))]
	worlds := [][]int{{0}, {1}, {0, 1}, {2, 3}, {1, 4}, {7}, {5, 1}}
	docs := worlds[vxChoice(len(worlds))]
	c := vxBuildWorld(t, docs...)
	n := vxChoice(2) + 1
	ks := make([]int, n)
	gaps := make([]int, n+1)
	for i := range ks {
		ks[i] = docs[vxChoice(len(docs))]
	}
	for i := range gaps {
		gaps[i] = vxChoice(3) + 1
	}
	in, plants := vxPlantLayout(ks, gaps, vxChoice(4), true)
	r := c.Match(in)
	vxCheckPlants(c, r, plants)
	vxCover("end")
}

// H01sameline: two copies that share a line (known finding: the overlap filter works on lines).
func H01sameline() {
	c := vxBuildWorld(0.8, 0, 1)
	in, plants := vxPlantLayout([]int{0, 1}, []int{1, 1, 1}, 0, false)
	vxCheckPlants(c, c.Match(in), plants)
	vxCover("end")
}

// H01b: token ids travel through go-diff as runes (rune slice -> string -> rune slice); the round
// trip through the real diffWordsToRunes / diffRunesToWords must hand back the same word for every
// id a dictionary of up to 2^20 words can hand out.
func H01b() {
	id := vxInt(1, 1<<20)
	dict := newDictionary()
	dict.words[tokenID(id)] = "w"
	dict.words[tokenID(0xFFFD)] = "other"
	doc := &indexedDocument{Tokens: []indexedToken{{ID: tokenID(id), Line: 1}}, dict: dict}
	runes := diffWordsToRunes(doc, 0, 1)
	text := string(runes) // what go-diff does with its input
	back := diffRunesToWords([]diffmatchpatch.Diff{{Type: diffmatchpatch.DiffEqual, Text: text}}, dict)
	vxAssert("rune-roundtrip", len(back) == 1 && (back[0].Text == "w" || id == 0xFFFD))
	vxCover("end")
}
