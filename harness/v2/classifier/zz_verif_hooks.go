//go:build verif

package classifier

import "io"

// Call-site hooks used only by native replays of harnesses that stub callees of match(): check.py
// overlays a copy of the current classifier.go whose four call sites go through wrappers consulting
// these variables (see native_hooks.json); vxHooked is set by that copy's init.
var vxHooked bool

var vxHooks struct {
	tokenize   func(src io.Reader, normalize bool, dict *dictionary, updateDict bool) (*indexedDocument, error)
	similarity func(d, o *indexedDocument) float64
	potential  func(c *Classifier, src, target *searchSet, confidence float64) matchRanges
	score      func(c *Classifier, id string, unknown, known *indexedDocument, unknownStart, unknownEnd int) (float64, int, int)
}
