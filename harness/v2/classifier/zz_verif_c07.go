//go:build verif

package classifier

func init() {
	vxRegister("H07tQ", H07tQ)
	vxRegister("H07tT", H07tT)
}

func H07tQ() { h07t(2) }
func H07tT() { h07t(3) }

var vxPrefixes = []string{"qqq zzz\n", "zzz\n\n", "qqq zzz yyy\nxxx\n"}
var vxSuffixes = []string{"\nzzz qqq", "\n\nqqq\n", "\nxxx"}

// h07t: tokenizer concatenation lemma - tokens(p·x·s) = tokens(p) ++ shift(tokens(x)) ++ tokens(s).
func h07t(n int) {
	x := vxBytes(n)
	vxNoHyphenLineEnd(x)
	// x itself must not end in a hyphen directly before the suffix's newline
	vxAssume(x[n-1] != '-')
	if n >= 3 {
		vxAssume(!(x[n-3] == 0xE2 && x[n-2] == 0x80))
	}
	pi, si := vxChoice(len(vxPrefixes)), vxChoice(len(vxSuffixes))
	p, s := vxPrefixes[pi], vxSuffixes[si]
	bx := vxTokenizeBytes(x)
	bp := vxTokenizeBytes([]byte(p))
	bs := vxTokenizeBytes([]byte(s))
	full := vxTokenizeBytes(append(append([]byte(p), x...), s...))
	plines := 0
	for i := 0; i < len(p); i++ {
		if p[i] == '\n' {
			plines++
		}
	}
	xlines := 0
	for _, b := range x {
		xlines += vxIteInt(b == '\n', 1, 0)
	}
	vxAssert("concat-count", len(full.words) == len(bp.words)+len(bx.words)+len(bs.words))
	if len(full.words) == len(bp.words)+len(bx.words)+len(bs.words) {
		k := 0
		for i := range bp.words {
			vxAssert("concat-prefix-word", full.words[k] == bp.words[i])
			vxAssert("concat-prefix-line", full.lines[k] == bp.lines[i])
			k++
		}
		for i := range bx.words {
			vxAssert("concat-x-word", full.words[k] == bx.words[i])
			vxAssert("concat-x-line", full.lines[k] == bx.lines[i]+plines)
			k++
		}
		for i := range bs.words {
			vxAssert("concat-suffix-word", full.words[k] == bs.words[i])
			vxAssert("concat-suffix-line", full.lines[k] == bs.lines[i]+plines+xlines)
			k++
		}
	}
	vxAssert("concat-copyright", len(full.cr) == len(bx.cr))
	vxCover("end")
}

func init() {
	vxRegister("H07mQ", H07mQ)
	vxRegister("H07mT", H07mT)
}

func H07mQ() { h07m(false) }
func H07mT() { h07m(true) }

// h07m: Match is shift-equivariant - X embedded between out-of-vocabulary blocks yields exactly the
// matches of X alone, shifted by the size of the preceding block.
func h07m(thorough bool) {
	edits := 2
	t := 0.7
	worlds := [][]int{{1}}
	if thorough {
		t = []float64{0.7, 0.8}[vxChoice(2)]
		worlds = [][]int{{1}, {0, 1}}
	}
	docs := worlds[vxChoice(len(worlds))]
	c := vxBuildWorld(t, docs...)
	K := vxFamily[docs[vxChoice(len(docs))]]
	X := vxNoisyCopy(K, []string{"a", "b", "h"}, edits)
	vxAssume(len(X) >= c.q)
	pat := 0
	xw, xb := vxEmbed(X, 0, 0, pat)
	if len(xb) > 0 {
		xb[len(xb)-1] = false
	}
	alone := vxText(xw, xb)
	// 0 = X at the very start / very end of the input
	a, b := []int{0, 3}[vxChoice(2)], vxChoice(2)
	plines := 1
	if thorough {
		a, b = []int{0, 1, 3}[vxChoice(3)], vxChoice(2)
	}
	vxAssume(a+b > 0) // the prefix block occupies 1 or 2 lines and ends with a newline
	var pre []byte
	for i := 0; i < a; i++ {
		pre = append(pre, "zzz"...)
		if i == a-1 || (plines == 2 && i == 0 && a > 1) {
			pre = append(pre, '\n')
		} else {
			pre = append(pre, ' ')
		}
	}
	dl := 0
	for _, ch := range pre {
		if ch == '\n' {
			dl++
		}
	}
	var suf []byte
	if b > 0 {
		suf = append(suf, '\n')
	}
	for i := 0; i < b; i++ {
		suf = append(suf, "qqq "...)
	}
	embedded := append(append(append([]byte{}, pre...), alone...), suf...)
	r0 := c.Match(alone)
	r1 := c.Match(embedded)
	vxAssert("shift-count", len(r0.Matches) == len(r1.Matches))
	if len(r0.Matches) == len(r1.Matches) {
		for i := range r0.Matches {
			m0, m1 := r0.Matches[i], r1.Matches[i]
			vxAssert("shift-identity", m0.Name == m1.Name && m0.MatchType == m1.MatchType && m0.Variant == m1.Variant)
			vxAssert("shift-confidence", m0.Confidence == m1.Confidence)
			vxAssert("shift-tokens", m1.StartTokenIndex == m0.StartTokenIndex+a && m1.EndTokenIndex == m0.EndTokenIndex+a)
			vxAssert("shift-lines", m1.StartLine == m0.StartLine+dl && m1.EndLine == m0.EndLine+dl)
		}
	}
	if len(r0.Matches) > 0 {
		vxCover("has-match")
	}
	vxCover("end")
}
