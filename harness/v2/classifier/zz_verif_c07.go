//go:build verif

package classifier

func init() {
	vxRegister("H07tQ", H07tQ)
	vxRegister("H07tT", H07tT)
}

func H07tQ() { h07t(2) }
func H07tT() { h07t(3) }

var vxPrefixes = []string{"qqq zzz\n", "zzz\n\n", "qqq zzz yyy\nxxx\n"}
var vxSuffixes = []string{"\nzzz qqq", "\n\nqqq\n", "\nxxx"}

// h07t: tokenizer concatenation lemma - tokens(p·x·s) = tokens(p) ++ shift(tokens(x)) ++ tokens(s).
func h07t(n int) {
	x := vxBytes(n)
	vxNoHyphenLineEnd(x)
	// x itself must not end in a hyphen directly before the suffix's newline
	vxAssume(x[n-1] != '-')
	if n >= 3 {
		vxAssume(!(x[n-3] == 0xE2 && x[n-2] == 0x80))
	}
	pi, si := vxChoice(len(vxPrefixes)), vxChoice(len(vxSuffixes))
	p, s := vxPrefixes[pi], vxSuffixes[si]
	bx := vxTokenizeBytes(x)
	bp := vxTokenizeBytes([]byte(p))
	bs := vxTokenizeBytes([]byte(s))
	full := vxTokenizeBytes(append(append([]byte(p), x...), s...))
	plines := 0
	for i := 0; i < len(p); i++ {
		if p[i] == '\n' {
			plines++
		}
	}
	xlines := 0
	for _, b := range x {
		xlines += vxIteInt(b == '\n', 1, 0)
	}
	vxAssert("concat-count", len(full.words) == len(bp.words)+len(bx.words)+len(bs.words))
	if len(full.words) == len(bp.words)+len(bx.words)+len(bs.words) {
		k := 0
		for i := range bp.words {
			vxAssert("concat-prefix-word", full.words[k] == bp.words[i])
			vxAssert("concat-prefix-line", full.lines[k] == bp.lines[i])
			k++
		}
		for i := range bx.words {
			vxAssert("concat-x-word", full.words[k] == bx.words[i])
			vxAssert("concat-x-line", full.lines[k] == bx.lines[i]+plines)
			k++
		}
		for i := range bs.words {
			vxAssert("concat-suffix-word", full.words[k] == bs.words[i])
			vxAssert("concat-suffix-line", full.lines[k] == bs.lines[i]+plines+xlines)
			k++
		}
	}
	vxAssert("concat-copyright", len(full.cr) == len(bx.cr))
	vxCover("end")
}
