//go:build verif

package classifier

import (
	"bytes"
	"fmt"
	"strings"
)

func init() {
	vxRegister("HConfTokenize", HConfTokenize)
	vxRegister("HConfMatch", HConfMatch)
}

var vxConfInputs = []string{
	"",
	"hello world",
	"Hello, World!\nThis is a test.\n",
	"The  quick brown-\nfox jumps\n\n over the lazy dog's back.",
	"Copyright 2020 Google Inc.\nLicensed under the Apache License, Version 2.0\n",
	"1. first item\n2. second item\na) third\niv. fourth 1.2.3 version 2.0.\n",
	"https://www.apache.org/licenses/LICENSE-2.0 &amp; &lt;tag&gt; &copy;",
	"// comment line\n# another\n * star\n-- dashes – en — em\n",
	"caf\xc3\xa9 na\xc3\xafve \xe2\x80\x9cquoted\xe2\x80\x9d \xff\xfe bad\xc3",
	"licence organisation whilst centre\tTAB\r\nCRLF line\r\n",
	"2020-01-02\n(c) 2019 Some Body\nfoo (bar) [baz] &c.",
}

func vxDigestDoc(d *indexedDocument, dict *dictionary) string {
	var sb strings.Builder
	for _, t := range d.Tokens {
		fmt.Fprintf(&sb, "%s@%d ", dict.getWord(t.ID), t.Line)
	}
	for _, m := range d.Matches {
		fmt.Fprintf(&sb, "|%s %d-%d %v", m.Name, m.StartLine, m.EndLine, m.Confidence)
	}
	return sb.String()
}

// HConfTokenize: concrete conformance run of the tokenizer (engine vs native must agree).
func HConfTokenize() {
	for i, in := range vxConfInputs {
		dict := newDictionary()
		d, err := tokenizeStream(bytes.NewReader([]byte(in)), true, dict, true)
		if err != nil {
			vxEmit(fmt.Sprintf("tok%d", i), "error")
			continue
		}
		vxEmit(fmt.Sprintf("tok%d", i), vxDigestDoc(d, dict))
		c := NewClassifier(0.8)
		vxEmit(fmt.Sprintf("norm%d", i), string(c.Normalize([]byte(in))))
	}
}

func vxDigestResults(r Results) string {
	var sb strings.Builder
	fmt.Fprintf(&sb, "lines=%d", r.TotalInputLines)
	for _, m := range r.Matches {
		fmt.Fprintf(&sb, " [%s/%s/%s %v L%d-%d T%d-%d]", m.MatchType, m.Name, m.Variant, m.Confidence, m.StartLine, m.EndLine, m.StartTokenIndex, m.EndTokenIndex)
	}
	return sb.String()
}

const vxLicA = "permission is hereby granted free of charge to any person obtaining a copy of this software and associated documentation files"
const vxLicB = "redistribution and use in source and binary forms with or without modification are permitted provided that the following conditions are met"

// HConfMatch: concrete conformance run of Match on a small corpus.
func HConfMatch() {
	c := NewClassifier(0.8)
	c.AddContent("License", "A", "a.txt", []byte(vxLicA))
	c.AddContent("License", "B", "b.txt", []byte(vxLicB))
	inputs := []string{
		vxLicA,
		"some preamble text here\n" + vxLicA + "\ntrailing words follow",
		strings.Replace(vxLicA, "free of charge", "gratis", 1),
		vxLicA + "\n\nunrelated filler words between the two\n\n" + vxLicB,
		"nothing to see here",
		"",
		strings.Replace(vxLicB, "binary", "object", 1) + " Copyright 2001 X\n",
	}
	for i, in := range inputs {
		vxEmit(fmt.Sprintf("match%d", i), vxDigestResults(c.Match([]byte(in))))
	}
}
