//go:build verif

package classifier

func init() {
	vxRegister("H05aQ", H05aQ)
	vxRegister("H05aQ2", H05aQ2)
	vxRegister("H05aT", H05aT)
	vxRegister("H05b", H05b)
	vxRegister("H05pad", H05pad)
	vxRegister("H05date", H05date)
}

func H05aQ2() { h05a(2) }
func H05aQ() { h05a(3) }
func H05aT() { h05a(4) }

var vxDecorations = []string{"// ", "# ", "* ", " * ", "; ", "-- ", "> ", "| ", "% ", "//", "#", ">"}
var vxDashes = []string{"‒", "–", "—", "‐"}

// h05a: presentation changes applied at a symbolic position leave the token stream unchanged.
func h05a(n int) {
	x := vxBytes(n)
	vxNoHyphenLineEnd(x)
	kind := vxChoice(7)
	var y []byte
	tag := ""
	lines := true
	switch kind {
	case 0: // re-case ASCII letters under an arbitrary mask
		y = make([]byte, n)
		tag = "recase"
		for i := range x {
			isLetter := ((x[i] | 0x20) - 'a') < 26
			y[i] = vxIteByte(vxAnd(vxBool(), isLetter), x[i]^0x20, x[i])
		}
		tag, y, lines = "recase", y, true
	case 1: // a space becomes a tab, two spaces, or space+tab
		p := vxChoice(n)
		vxAssume(x[p] == ' ')
		alt := []string{"\t", "  ", " \t", "\t\t "}[vxChoice(4)]
		tag, y, lines = "hspace", vxReplace(x, p, alt), true
	case 2: // trailing blanks / CR before a newline, or at the end of input
		p := vxChoice(n + 1)
		if p < n {
			vxAssume(x[p] == '\n')
		}
		ins := []string{" ", "\t", "\r", " \r", "  "}[vxChoice(5)]
		tag, y, lines = "trailing", vxInsert(x, p, ins), true
	case 3: // indentation at a line start
		p := vxChoice(n + 1)
		if p > 0 {
			vxAssume(x[p-1] == '\n')
		}
		ins := []string{" ", "\t", "    "}[vxChoice(3)]
		tag, y, lines = "indent", vxInsert(x, p, ins), true
	case 4: // a blank line is inserted (line numbers then exempt)
		p := vxChoice(n + 1)
		if p > 0 {
			vxAssume(x[p-1] == '\n')
		}
		ins := []string{"\n", " \n", "\r\n"}[vxChoice(3)]
		tag, y, lines = "blankline", vxInsert(x, p, ins), false
	case 5: // comment / quote decoration at a line start
		p := vxChoice(n + 1)
		if p > 0 {
			vxAssume(x[p-1] == '\n')
		}
		ins := vxDecorations[vxChoice(len(vxDecorations))]
		tag, y, lines = "decoration", vxInsert(x, p, ins), true
	case 6: // ASCII hyphen becomes a typographic dash
		p := vxChoice(n)
		vxAssume(x[p] == '-')
		ins := vxDashes[vxChoice(len(vxDashes))]
		tag, y, lines = "dash", vxReplace(x, p, ins), true
	}
	vxSameDoc(tag, vxTokenizeBytes(x), vxTokenizeBytes(y), lines)
	vxCover("end")
}

// H05pad: indentation that moves the content across the read-buffer boundary (1012..1024 leading
// blanks) changes nothing - x = symbolic bytes followed by enough text to fill the buffer.
func H05pad() {
	x := vxBytes(2)
	vxNoHyphenLineEnd(x)
	tail := " tail of the line\nzz\n"
	pad := 1012 + vxChoice(13)
	body := append(append([]byte{}, x...), tail...)
	padded := make([]byte, 0, pad+len(body))
	for i := 0; i < pad; i++ {
		padded = append(padded, ' ')
	}
	padded = append(padded, body...)
	vxSameDoc("indent-across-buffer", vxTokenizeBytes(body), vxTokenizeBytes(padded), true)
	vxCover("end")
}

// H05date: a date-only line keeps being recognised as ignorable text when its hyphens are typographic.
func H05date() {
	d := []string{"2006-01-27", "2006-Jan-27", "1999-12-31"}[vxChoice(3)]
	dash := vxDashes[vxChoice(len(vxDashes))]
	which := vxChoice(3) // first, second or both hyphens
	y := ""
	n := 0
	for i := 0; i < len(d); i++ {
		if d[i] == '-' {
			if which == 2 || which == n {
				y += dash
			} else {
				y += "-"
			}
			n++
		} else {
			y += string(d[i])
		}
	}
	pre, post := "alpha beta\n", "\ngamma delta\n"
	vxSameDoc("date-line", vxTokenizeBytes([]byte(pre+d+post)), vxTokenizeBytes([]byte(pre+y+post)), true)
	vxCover("end")
}

// H05b: ASCII quotes inside a word versus their typographic forms.
func H05b() {
	n := 3
	x := vxBytes(n)
	vxNoHyphenLineEnd(x)
	p := vxChoice(n)
	q := vxChoice(2)
	var alts []string
	if q == 0 {
		vxAssume(x[p] == '\'')
		alts = []string{"‘", "’"}
	} else {
		vxAssume(x[p] == '"')
		alts = []string{"“", "”"}
	}
	base := vxTokenizeBytes(x)
	vxSameDoc("quote", base, vxTokenizeBytes(vxReplace(x, p, alts[vxChoice(2)])), true)
	vxCover("end")
}
