//go:build verif

package classifier

import "strings"

// Small world: a classifier built by the real NewClassifier/AddContent from tiny documents.
var vxFamily = [][]string{
	{"a", "b", "c", "d", "e", "f"},                // 0
	{"a", "b", "c", "d", "e", "f", "g", "h"},      // 1: 0 is a strict prefix of 1
	{"a", "a", "a", "a", "b", "a", "a", "a"},      // 2: repetitive
	{"a", "b", "a", "b", "a", "b", "a", "b"},      // 3: periodic
	{"c", "d", "e", "f", "g", "h", "a", "b"},      // 4: rotation of 1
	{"a", "b"},                                    // 5: shorter than q at 0.8
	{},                                            // 6: empty document
	{"e", "f", "g", "h", "a", "b", "c", "d", "e", "f", "g", "h"}, // 7: 12 words
	{"p", "q", "r"},      // 8: exactly the minimum run length for thresholds in [0.75,0.8)
	{"p", "q", "r", "s"}, // 9: minimum run length for [0.8,0.8333)
}

func vxDocName(i int) string { return []string{"D0", "D1", "D2", "D3", "D4", "D5", "D6", "D7", "D8", "D9"}[i] }

func vxBuildWorld(t float64, docs ...int) *Classifier {
	c := NewClassifier(t)
	for _, d := range docs {
		c.AddContent("License", vxDocName(d), "v.txt", []byte(strings.Join(vxFamily[d], " ")))
	}
	return c
}

// vxText renders words (one per token; "" = out-of-vocabulary word) with a line break
// after token i when brk[i] is set.
func vxText(words []string, brk []bool) []byte {
	var sb strings.Builder
	for i, w := range words {
		if w == "" {
			w = "zzz"
		}
		sb.WriteString(w)
		if i < len(brk) && brk[i] {
			sb.WriteByte('\n')
		} else {
			sb.WriteByte(' ')
		}
	}
	return []byte(sb.String())
}

// vxSymbolicDoc chooses m tokens over vocab (index len(vocab) = out-of-vocabulary) and line breaks.
func vxSymbolicDoc(m int, vocab []string, breaks bool) ([]string, []bool) {
	words := make([]string, m)
	brk := make([]bool, m)
	for i := range words {
		k := vxChoice(len(vocab) + 1)
		if k < len(vocab) {
			words[i] = vocab[k]
		}
		if breaks {
			brk[i] = vxBool()
		}
	}
	return words, brk
}

// vxNoisyCopy returns K after up to `edits` symbolic word edits (delete / substitute / insert
// at symbolic positions; the replacement word is another vocabulary word or out-of-vocabulary).
func vxNoisyCopy(K []string, vocab []string, edits int) []string {
	w := append([]string(nil), K...)
	for e := 0; e < edits; e++ {
		op := vxChoice(4)
		if op == 0 {
			continue
		}
		var nw string
		if op >= 2 {
			k := vxChoice(len(vocab) + 1)
			if k < len(vocab) {
				nw = vocab[k]
			}
		}
		switch op {
		case 1: // delete
			if len(w) == 0 {
				continue
			}
			p := vxChoice(len(w))
			w = append(w[:p:p], w[p+1:]...)
		case 2: // substitute
			if len(w) == 0 {
				continue
			}
			p := vxChoice(len(w))
			w = append(append(w[:p:p], nw), w[p+1:]...)
		case 3: // insert
			p := vxChoice(len(w) + 1)
			w = append(append(w[:p:p], nw), w[p:]...)
		}
	}
	return w
}

// vxEmbed surrounds words with a and b out-of-vocabulary words and applies a line-break pattern.
func vxEmbed(words []string, a, b int, pattern int) ([]string, []bool) {
	var all []string
	for i := 0; i < a; i++ {
		all = append(all, "")
	}
	all = append(all, words...)
	for i := 0; i < b; i++ {
		all = append(all, "")
	}
	brk := make([]bool, len(all))
	for i := range brk {
		switch pattern {
		case 1:
			brk[i] = true
		case 2:
			brk[i] = i%2 == 1
		case 3:
			brk[i] = i == a-1 || i == a+len(words)-1
		case 4:
			brk[i] = i%3 == 2
		}
	}
	return all, brk
}

func vxKnownWords(name string) []string {
	for i := range vxFamily {
		if vxDocName(i) == name {
			return vxFamily[i]
		}
	}
	return nil
}

// vxLevenshtein is the reference word-level edit distance.
func vxLevenshtein(a, b []string) int {
	prev := make([]int, len(b)+1)
	for j := range prev {
		prev[j] = j
	}
	for i := 1; i <= len(a); i++ {
		cur := make([]int, len(b)+1)
		cur[0] = i
		for j := 1; j <= len(b); j++ {
			c := prev[j-1]
			if a[i-1] != b[j-1] {
				c++
			}
			if prev[j]+1 < c {
				c = prev[j] + 1
			}
			if cur[j-1]+1 < c {
				c = cur[j-1] + 1
			}
			cur[j] = c
		}
		prev = cur
	}
	return prev[len(b)]
}

// vxWellFormed asserts the C03 result invariants for input text in against classifier c.
func vxWellFormed(c *Classifier, t float64, in []byte, r Results, docs []int) {
	nl := 1
	for _, b := range in {
		if b == '\n' {
			nl++
		}
	}
	d := c.createTargetIndexedDocument(in)
	nw := len(d.Tokens)
	vxAssert("total-lines", r.TotalInputLines <= nl)
	prev := 2.0
	for _, m := range r.Matches {
		if m.MatchType == "Copyright" {
			vxAssert("copyright-wellformed", m.Confidence == 1.0 && m.StartLine == m.EndLine && m.StartLine >= 1 && m.StartLine <= nl)
			continue
		}
		vxAssert("conf-at-least-threshold", m.Confidence >= t)
		vxAssert("conf-at-most-one", m.Confidence <= 1.0)
		known := false
		for _, di := range docs {
			if m.Name == vxDocName(di) && m.MatchType == "License" && m.Variant == "v.txt" {
				known = true
			}
		}
		vxAssert("triple-in-corpus", known)
		vxAssert("lines-ordered", 1 <= m.StartLine && m.StartLine <= m.EndLine && m.EndLine <= r.TotalInputLines)
		vxAssert("token-span", 0 <= m.StartTokenIndex && m.StartTokenIndex <= m.EndTokenIndex && m.EndTokenIndex < nw)
		vxAssert("sorted-by-confidence", m.Confidence <= prev)
		prev = m.Confidence
	}
}
