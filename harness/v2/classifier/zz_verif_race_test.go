//go:build verif

package classifier

import (
	"os"
	"reflect"
	"sync"
	"testing"
)

// TestVxRace replays a write-set counterexample as 8 goroutines matching the witness on one
// classifier (run under -race); results are compared with the sequential result.
func TestVxRace(t *testing.T) {
	path := os.Getenv("VX_REPLAY")
	if path == "" {
		t.Skip("VX_REPLAY not set")
	}
	name, err := vxLoadReplay(path)
	if err != nil {
		t.Fatal(err)
	}
	ref, in0 := vxC09Case(name)
	want := ref.Match(in0) // sequential result on a separately built, identical classifier
	if _, err := vxLoadReplay(path); err != nil {
		t.Fatal(err)
	}
	c, in := vxC09Case(name)
	var wg sync.WaitGroup
	for g := 0; g < 8; g++ {
		wg.Add(1)
		go func() {
			defer wg.Done()
			for i := 0; i < 50; i++ {
				got := c.Match(in)
				if !reflect.DeepEqual(got, want) {
					t.Errorf("VXFAIL concurrent result differs from sequential result")
					return
				}
			}
		}()
	}
	wg.Wait()
}
