//go:build verif

package classifier

func init() {
	vxRegister("H10mQ", H10mQ)
	vxRegister("H10mT", H10mT)
	vxRegister("H03aQ", H03aQ)
	vxRegister("H03aT", H03aT)
	vxRegister("H02aQ", H02aQ)
	vxRegister("H03f", H03f)
	vxRegister("H03x", H03x)
	vxRegister("H03fT", H03fT)
	vxRegister("H02aT", H02aT)
}

func H10mQ() { h10m(false) }
func H10mT() { h10m(true) }

// h10m: Match is total for every threshold in [0,1] (symbolic float64), including empty
// corpora, empty corpus documents, and inputs with no words at all.
func h10m(thorough bool) {
	t := vxFloat64(0, 1)
	worlds := [][]int{{}, {6}, {0}}
	inputs := []string{"", "Copyright 2020 x\n", "a b", "a b c d e f"}
	if thorough {
		worlds = append(worlds, []int{0, 6}, []int{5, 1})
		inputs = append(inputs, "zzz", "a b c d e zzz f g h", "\n\n")
	}
	c := vxBuildWorld(t, worlds[vxChoice(len(worlds))]...)
	in := []byte(inputs[vxChoice(len(inputs))])
	r := c.Match(in)
	for _, m := range r.Matches {
		if m.MatchType != "Copyright" {
			vxAssert("conf-at-least-threshold", m.Confidence >= t)
		}
	}
	c.Normalize(in)
	vxCover("end")
}

func H03aQ() { h03a(1, []float64{0.8}) }
func H03aT() { h03a(2, []float64{0.5, 0.8}) }

// h03a: every result of Match on a small world is well formed.
func h03a(edits int, ts []float64) {
	t := ts[vxChoice(len(ts))]
	docs := [][]int{{0}, {0, 1}, {2, 3}, {1, 4}}[vxChoice(4)]
	c := vxBuildWorld(t, docs...)
	K := vxFamily[docs[vxChoice(len(docs))]]
	words := vxNoisyCopy(K, []string{"a", "b", "h"}, edits)
	var all []string
	var brk []bool
	if edits > 1 {
		all, brk = vxEmbed(words, vxChoice(2), vxChoice(2), []int{0, 2}[vxChoice(2)])
	} else {
		all, brk = vxEmbed(words, vxChoice(3), vxChoice(3), vxChoice(5))
	}
	in := vxText(all, brk)
	r := c.Match(in)
	vxWellFormed(c, t, in, r, docs)
	if len(r.Matches) > 0 {
		vxCover("has-match")
	}
	vxCover("end")
}

// H03f: nothing below the threshold is reported - the threshold is a symbolic float64 in (0,1]
// and the input is a noisy copy (one substituted word) so that the confidence is strictly below 1.
// H03x: one noisy input with a symbolic threshold, run with GOSX_FPCHECK=1 in the thorough tier.
func H03x() {
	t := vxFloat64(0.0001, 1.0)
	c := vxBuildWorld(t, 1)
	in := []byte("zzz\na b c zzz e f g h\nzzz d")
	r := c.Match(in)
	vxWellFormed(c, t, in, r, []int{1})
	vxCover("end")
}

func H03f()  { h03f(false) }
func H03fT() { h03f(true) }

func h03f(thorough bool) {
	t := vxFloat64(0.0001, 1.0)
	worlds := [][]int{{1}, {0, 1}}
	if thorough {
		worlds = append(worlds, []int{2, 3}, []int{7})
	}
	world := worlds[vxChoice(len(worlds))]
	c := vxBuildWorld(t, world...)
	K := vxFamily[world[vxChoice(len(world))]]
	edits := 1
	if thorough {
		edits = 2
	}
	words := vxNoisyCopy(K, []string{"a", "h"}, edits)
	all, brk := vxEmbed(words, 1, 1, 3)
	// every word of the document re-appears after the trailing block, so that the token-similarity
	// pre-filter stays at 1.0 while the matched span has a confidence below 1
	for _, w := range K {
		all, brk = append(all, w), append(brk, false)
	}
	in := vxText(all, brk)
	r := c.Match(in)
	vxWellFormed(c, t, in, r, world)
	if len(r.Matches) > 0 {
		vxCover("has-match")
	}
	vxCover("end")
}

func H02aQ() { h02a(1, 0) }
func H02aT() { h02a(2, 1) }

// h02a: confidence never overstates the similarity of the reported span (Levenshtein oracle);
// StartLine/EndLine are the lines of the span's first and last word.
func h02a(edits int, world int) {
	t := []float64{0.5, 0.7, 0.8}[vxChoice(3)]
	docs := [][][]int{{{0}, {1}, {2}, {3}}, {{0, 1}, {2, 3}, {7}}}[world]
	ds := docs[vxChoice(len(docs))]
	c := vxBuildWorld(t, ds...)
	K0 := vxFamily[ds[vxChoice(len(ds))]]
	words := vxNoisyCopy(K0, []string{"a", "b", "h"}, edits)
	var all []string
	var brk []bool
	if edits > 1 {
		all, brk = vxEmbed(words, vxChoice(2), vxChoice(2), []int{0, 2}[vxChoice(2)])
	} else {
		all, brk = vxEmbed(words, vxChoice(3), vxChoice(3), vxChoice(5))
	}
	in := vxText(all, brk)
	r := c.Match(in)
	if len(r.Matches) > 0 {
		vxCover("has-match")
	}
	d := c.createTargetIndexedDocument(in)
	for _, mt := range r.Matches {
		if mt.MatchType == "Copyright" {
			continue
		}
		K := vxKnownWords(mt.Name)
		var R []string
		for i := mt.StartTokenIndex; i <= mt.EndTokenIndex && i < len(all); i++ {
			w := all[i] // the input's words are known by construction
			if w == "" {
				w = "zzz"
			}
			R = append(R, w)
		}
		vxAssert("span-inside-input", mt.EndTokenIndex < len(all))
		L := vxLevenshtein(R, K)
		bound := 1.0 - float64(L)/float64(len(K))
		vxAssert("confidence-not-overstated", mt.Confidence <= bound)
		if mt.Confidence == 1.0 {
			vxAssert("exact-only-if-identical", L == 0)
		}
		vxAssert("start-line-of-first-word", mt.StartLine == d.Tokens[mt.StartTokenIndex].Line)
		vxAssert("end-line-of-last-word", mt.EndLine == d.Tokens[mt.EndTokenIndex].Line)
	}
	vxCover("end")
}
