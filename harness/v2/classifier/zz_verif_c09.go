//go:build verif

package classifier

func init() {
	vxRegister("H09wQ", H09wQ)
	vxRegister("H09wT", H09wT)
	vxRegister("H09wT3", H09wT3)
	vxRegister("H09wBig", H09wBig)
}

// vxC09Case builds the shared classifier and one input from the vx inputs (also used by the race replay).
func vxC09Case(name string) (*Classifier, []byte) {
	edits, small := 2, true
	switch name {
	case "H09wBig":
		edits = 1
	case "H09wT":
		small = false
	case "H09wT3":
		edits = 3
	}
	worlds := [][]int{{1}, {7}}
	if !small {
		worlds = [][]int{{1}, {1, 2}, {3, 4}, {7}}
	}
	docs := worlds[vxChoice(len(worlds))]
	c := vxBuildWorld(0.7, docs...)
	K := vxFamily[docs[vxChoice(len(docs))]]
	words := vxNoisyCopy(K, []string{"a", "b", "h", "3.101"}, edits)
	a, b, pat := 1, 0, 0
	if !small {
		a = vxChoice(2)
	}
	if name == "H09wBig" {
		a = 1100 // an input of more than 1024 words
	}
	if !small {
		b, pat = vxChoice(2), vxChoice(2)
	}
	all, brk := vxEmbed(words, a, b, pat)
	return c, vxText(all, brk)
}

func H09wQ()  { h09w("H09wQ") }
func H09wT()  { h09w("H09wT") }
func H09wT3() { h09w("H09wT3") }
func H09wBig() { h09w("H09wBig") }

// h09w: lemma L3 - Match stores nothing into memory that existed before the call (the
// classifier and its corpus), hence concurrent calls cannot race and return their sequential result.
func h09w(name string) {
	c, in := vxC09Case(name)
	vxFreeze(c)
	r := c.Match(in)
	vxThaw()
	if len(r.Matches) > 0 {
		vxCover("has-match")
	}
	vxCover("end")
}
