//go:build verif

package classifier

import "bytes"

func init() {
	vxRegister("H10tQ", H10tQ)
	vxRegister("H10tT", H10tT)
	vxRegister("H10tmpl", H10tmpl)
}

func H10tQ() { h10t(vxBytes(2)) }
func H10tT() { h10t(vxBytes(3)) }

// H10tmpl: templates around two symbolic bytes - hyphen/newline storm, entity prefix, 4-byte rune, NUL.
func H10tmpl() {
	t := []string{"a-\n-\n-", "&#x", "&am", "\xf0\x9f\x98", "\x00\x00", "a-\n \n", "x", "3."}[vxChoice(8)]
	in := append([]byte(t), vxBytes(2)...)
	in = append(in, "-\n&;"...)
	h10t(in)
}

// h10t: the four entry points accept any bytes without panicking (a Go panic on any feasible
// path is reported by the engine) and within the step budget (no hang).
func h10t(in []byte) {
	c := NewClassifier(0.8)
	c.AddContent("License", "A", "a.txt", []byte("a b c d e f"))
	save := append([]byte(nil), in...)
	r := c.Match(in)
	_ = r
	r2, err := c.MatchFrom(bytes.NewReader(in))
	vxAssert("matchfrom-no-error", err == nil)
	_ = r2
	c.Normalize(in)
	c.AddContent("License", "X", "x.txt", in)
	c.Match([]byte("a b c d e f"))
	for i := range in {
		vxAssert("input-not-modified", in[i] == save[i])
	}
	vxCover("end")
}
