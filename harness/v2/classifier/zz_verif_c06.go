//go:build verif

package classifier

func init() {
	vxRegister("H06aQ", H06aQ)
	vxRegister("H06aT", H06aT)
	vxRegister("H06aT4", H06aT4)
	vxRegister("H06bQ", H06bQ)
	vxRegister("H06bT", H06bT)
	vxRegister("H06bParen", H06bParen)
	vxRegister("H06cQ", H06cQ)
	vxRegister("H06cT", H06cT)
	vxRegister("H06d", H06d)
	vxRegister("H06cpad", H06cpad)
	vxRegister("H06h", H06h)
	vxRegister("H06eQ", H06eQ)
	vxRegister("H06eT", H06eT)
}

var vxNotices = []string{
	"Copyright 2020 x",
	"copyright (c) 2019 Some Body, Inc.",
	"// Copyright 2021 w",
	"(c) Copyright 1999. All rights reserved",
	"2020-01-02",
	"1999-jan-31",
	"Copyright 2008, 2009 A, B and C.",
}

func H06aQ() { h06a(2) }
func H06aT() { h06a(3) }
func H06aT4() { h06a(4) }

// h06a: a copyright-notice line (or ISO date) inserted at a line boundary leaves the tokens of
// x unchanged (lines after it shift by one) and is itself reported on exactly its line.
func h06a(n int) {
	x := vxBytes(n)
	vxNoHyphenLineEnd(x)
	p := vxChoice(n + 1)
	if p > 0 {
		vxAssume(x[p-1] == '\n')
	}
	notice := vxNotices[vxChoice(len(vxNotices))]
	insLine := 1
	for i := 0; i < p; i++ {
		insLine += vxIteInt(x[i] == '\n', 1, 0)
	}
	bx := vxTokenizeBytes(x)
	by := vxTokenizeBytes(vxInsert(x, p, notice+"\n"))
	vxAssert("notice-word-count", len(bx.words) == len(by.words))
	if len(bx.words) == len(by.words) {
		for i := range bx.words {
			vxAssert("notice-word", bx.words[i] == by.words[i])
			want := bx.lines[i] + vxIteInt(bx.lines[i] >= insLine, 1, 0)
			vxAssert("notice-line", by.lines[i] == want)
		}
	}
	vxAssert("notice-reported-once", len(by.cr) == len(bx.cr)+1)
	found := 0
	for _, l := range by.cr {
		found += vxIteInt(l == insLine, 1, 0)
	}
	vxAssert("notice-on-its-line", found == 1)
	vxCover("end")
}

var vxMarkers = []string{"1. ", "iv. ", "3.1. ", "a. ", "12. ", "2: ", "b: "}
var vxParenMarkers = []string{"a) ", "b) ", "ii) "}

func H06bQ() { h06b(2, vxMarkers) }
func H06bT() { h06b(3, vxMarkers) }

// H06bParen isolates the "letter)" form, which the tokenizer does not strip (known finding).
func H06bParen() { h06b(2, vxParenMarkers) }

// h06b: a list marker prefixed to a line does not change the tokens.
func h06b(n int, markers []string) {
	x := vxBytes(n)
	vxNoHyphenLineEnd(x)
	p := vxChoice(n + 1)
	if p > 0 {
		vxAssume(x[p-1] == '\n')
	}
	// exemption: a line whose own first word already looks like a list marker (ends in '.', ':' or ')')
	// would carry two stacked markers; approximated by keeping these characters out of x
	for _, b := range x {
		vxAssume(vxAnd(b != '.', vxAnd(b != ':', b != ')')))
	}
	mk := markers[vxChoice(len(markers))]
	vxSameDoc("marker", vxTokenizeBytes(x), vxTokenizeBytes(vxInsert(x, p, mk)), true)
	vxCover("end")
}

func H06cQ() { h06c(2) }
func H06cT() { h06c(4) }

// h06c: a word split across two lines with a trailing hyphen keeps its token.
func h06c(n int) {
	x := vxBytes(n)
	vxNoHyphenLineEnd(x)
	p := vxChoice(n-1) + 1
	isL := func(b byte) bool { return ((b | 0x20) - 'a') < 26 }
	vxAssume(vxAnd(isL(x[p-1]), isL(x[p])))
	// the continuation line may be indented by any horizontal whitespace
	indent := []string{"", " ", "\t", "  \t", "\u00a0", "\f", "\r", "\v \u2003"}[vxChoice(8)]
	vxSameDoc("hyphen-split", vxTokenizeBytes(x), vxTokenizeBytes(vxInsert(x, p, "-\n"+indent)), false)
	vxCover("end")
}

// H06cpad: the hyphen split sits at the read-buffer boundary (the line break, the indentation of the
// continuation line or the second half of the word is the first thing of the next buffer pass).
func H06cpad() {
	pad := 1010 + vxChoice(14)
	indent := []string{"", " ", "    "}[vxChoice(3)]
	w := vxBytes(1)
	isL := ((w[0] | 0x20) - 'a') < 26
	vxAssume(isL)
	word := "soft" + string(w) + "ware"
	mk := func(split bool) []byte {
		b := make([]byte, 0, pad+64)
		for i := 0; i < pad; i++ {
			b = append(b, ' ')
		}
		if split {
			b = append(b, word[:4]...)
			b = append(b, "-\n"+indent...)
			b = append(b, word[4:]...)
		} else {
			b = append(b, word...)
		}
		return append(b, " and more text to fill the buffer\nzz yy\n"...)
	}
	vxSameDoc("hyphen-split-at-buffer-boundary", vxTokenizeBytes(mk(false)), vxTokenizeBytes(mk(true)), false)
	vxCover("end")
}

// H06h: spelling variants are still mapped after the classifier has normalized or matched other text
// containing them (Normalize interns raw words into the dictionary).
func H06h() {
	text := "the licence of this organisation is granted whilst the programme is in the centre"
	canon := "the license of this organization is granted while the program is in the center"
	c := NewClassifier(0.8)
	c.AddContent("License", "A", "a.txt", []byte(canon))
	ref := c.Match([]byte(text))
	vxAssert("variant-matches-canonical", len(ref.Matches) == 1 && ref.Matches[0].Confidence == 1.0)
	k := vxChoice(3)
	switch k {
	case 0:
		c.Normalize([]byte("licence organisation whilst programme centre"))
	case 1:
		c.Match([]byte("licence organisation whilst programme centre"))
	case 2:
		c.Normalize([]byte(text))
		c.Normalize([]byte(canon))
	}
	again := c.Match([]byte(text))
	vxSameResults("spelling-after-history", ref, again)
	vxCover("end")
}

// H06d: every listed single-word spelling pair, in a context of symbolic neighbours.
func H06d() {
	a := vxByte()
	tail := []string{" ", ",", ".", ";", ":", ")", "\"", "'", "\n", ""}[vxChoice(10)]
	vxAssume(a != '-')
	for from, to := range interchangeableWords {
		hasSpace := false
		for i := 0; i < len(from); i++ {
			if from[i] == ' ' {
				hasSpace = true
			}
		}
		if hasSpace {
			continue // two-word keys cannot match a single token (documented TODO in the code)
		}
		x := append([]byte{a, ' '}, from+tail+" z"...)
		y := append([]byte{a, ' '}, to+tail+" z"...)
		vxSameDoc("spelling", vxTokenizeBytes(x), vxTokenizeBytes(y), true)
	}
	vxCover("end")
}

func H06eQ() { h06e(2) }
func H06eT() { h06e(3) }

// h06e: http and https are interchangeable inside a URL-like word.
func h06e(n int) {
	w := vxBytes(n)
	vxNoHyphenLineEnd(w)
	sep := []string{"://", ":", "%3A%2F%2F"}[vxChoice(3)]
	x := append([]byte("see http"+sep), w...)
	y := append([]byte("see https"+sep), w...)
	vxSameDoc("http-https", vxTokenizeBytes(x), vxTokenizeBytes(y), true)
	vxCover("end")
}
