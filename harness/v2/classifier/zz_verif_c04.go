//go:build verif

package classifier

import (
	"bytes"
	"sort"
	"strings"
)

func init() {
	vxRegister("H04a", H04a)
	vxRegister("H04aRanges", H04aRanges)
	vxRegister("H04bQ", H04bQ)
	vxRegister("H04bT", H04bT)
	vxRegister("H04cQ", H04cQ)
	vxRegister("H04cT", H04cT)
	vxRegister("H04w", H04w)
	vxRegister("H04trace", H04trace)
	vxRegister("H04h", H04h)
	vxRegister("H04wQ", H04wQ)
}

func vxSymMatch() *Match {
	return &Match{
		Name:            vxString(1),
		MatchType:       vxString(1),
		Variant:         vxString(1),
		Confidence:      vxFloat64(0, 1),
		StartTokenIndex: vxInt(0, 1000),
		EndTokenIndex:   vxInt(0, 1000),
	}
}

func vxSameKey(a, b *Match) bool {
	return vxAnd(vxAnd(a.Confidence == b.Confidence, vxAnd(a.StartTokenIndex == b.StartTokenIndex, a.EndTokenIndex == b.EndTokenIndex)),
		vxAnd(a.Name == b.Name, vxAnd(a.MatchType == b.MatchType, a.Variant == b.Variant)))
}

// H04a: the real Matches.Less is a strict weak order that is total on distinguishable
// records - otherwise sort.Sort's result depends on the (map-iteration) order of its input.
func H04a() {
	d := Matches{vxSymMatch(), vxSymMatch(), vxSymMatch()}
	ab, ba := d.Less(0, 1), d.Less(1, 0)
	bc, ac := d.Less(1, 2), d.Less(0, 2)
	vxAssert("irreflexive", !d.Less(0, 0))
	vxAssert("asymmetric", !vxAnd(ab, ba))
	vxAssert("transitive", vxImplies(vxAnd(ab, bc), ac))
	vxAssert("total-on-distinguishable", vxImplies(vxAnd(!ab, !ba), vxSameKey(d[0], d[1])))
	// sorting with Less yields non-increasing confidence (C03) ...
	vxAssert("less-respects-confidence", vxImplies(ab, d[0].Confidence >= d[1].Confidence))
	vxAssert("higher-confidence-sorts-first", vxImplies(d[0].Confidence > d[1].Confidence, ab))
	vxCover("end")
}

// H04aRanges: the same for matchRanges.Less, under the invariant that targetMatchedRanges
// establishes (two ranges with equal TokensClaimed/TargetStart/SrcStart are the same range).
func H04aRanges() {
	mk := func() *matchRange {
		return &matchRange{SrcStart: vxInt(0, 100), TargetStart: vxInt(0, 100), TokensClaimed: vxInt(0, 100)}
	}
	m := matchRanges{mk(), mk(), mk()}
	ab, ba := m.Less(0, 1), m.Less(1, 0)
	bc, ac := m.Less(1, 2), m.Less(0, 2)
	vxAssert("irreflexive", !m.Less(0, 0))
	vxAssert("asymmetric", !vxAnd(ab, ba))
	vxAssert("transitive", vxImplies(vxAnd(ab, bc), ac))
	same := vxAnd(m[0].SrcStart == m[1].SrcStart, vxAnd(m[0].TargetStart == m[1].TargetStart, m[0].TokensClaimed == m[1].TokensClaimed))
	vxAssert("total-on-distinguishable", vxImplies(vxAnd(!ab, !ba), same))
	vxCover("end")
}

func vxSameResults(tag string, a, b Results) {
	vxAssert(tag+"-total-lines", a.TotalInputLines == b.TotalInputLines)
	vxAssert(tag+"-count", len(a.Matches) == len(b.Matches))
	if len(a.Matches) == len(b.Matches) {
		for i := range a.Matches {
			vxAssert(tag+"-match", *a.Matches[i] == *b.Matches[i])
		}
	}
}

// vxTwinWorld: documents 0 and 1 plus a twin of 0 under another name (ties on every numeric field).
func vxTwinWorld(t float64, order int, extra bool) *Classifier {
	c := NewClassifier(t)
	type doc struct{ name, text string }
	docs := []doc{{"D0", "a b c d e f"}, {"Twin", "a b c d e f"}, {"D1", "a b c d e f g h"}}
	perms := [][]int{{0, 1, 2}, {0, 2, 1}, {1, 0, 2}, {1, 2, 0}, {2, 0, 1}, {2, 1, 0}}
	if extra {
		c.AddContent("License", "Unrelated", "u.txt", []byte("p q r s t u v w"))
	}
	for _, i := range perms[order] {
		c.AddContent("License", docs[i].name, "v.txt", []byte(docs[i].text))
	}
	return c
}

func H04bQ() { h04b(1) }
func H04bT() { h04b(2) }

// h04b: Match gives the same Results under every map-iteration order the engine can impose
// (all permutations for maps of <=3 entries, rotations/reversal for larger ones).
func h04b(edits int) {
	c := vxTwinWorld(0.8, 0, false)
	K := []string{"a", "b", "c", "d", "e", "f"}
	words := vxNoisyCopy(K, []string{"g", "h"}, edits)
	all, brk := vxEmbed(words, vxChoice(2), vxChoice(2), vxChoice(3))
	in := vxText(all, brk)
	ref := c.Match(in)
	vxMapOrder(2)
	got := c.Match(in)
	vxMapOrder(0)
	vxSameResults("map-order", ref, got)
	if len(ref.Matches) > 1 {
		vxCover("tie-present")
	}
	vxCover("end")
}

func H04cQ() { h04c(1) }
func H04cT() { h04c(2) }

// h04c: Results do not depend on insertion order, unrelated extra documents, calls made in
// between (Match / Normalize of other content), a separately built instance, or tracing.
func h04c(edits int) {
	K := []string{"a", "b", "c", "d", "e", "f"}
	words := vxNoisyCopy(K, []string{"g", "h"}, edits)
	pat := vxChoice(3)
	all, brk := vxEmbed(words, vxChoice(2), vxChoice(2), pat)
	in := vxText(all, brk)
	ref := vxTwinWorld(0.8, 0, false).Match(in)
	kind := vxChoice(6)
	switch kind {
	case 0: // insertion order
		vxSameResults("insertion-order", ref, vxTwinWorld(0.8, vxChoice(5)+1, false).Match(in))
	case 1: // unrelated extra document
		vxSameResults("superset", ref, vxTwinWorld(0.8, vxChoice(6), true).Match(in))
	case 2: // history: other calls in between
		c := vxTwinWorld(0.8, 0, false)
		c.Match([]byte("x y z a b c d e f g h"))
		c.Normalize([]byte("new words never seen before a b c"))
		c.MatchFrom(bytes.NewReader([]byte("a b c")))
		// the same words in another line layout, and with a notice line added
		_, brk2 := vxEmbed(words, 0, 0, (pat+1)%3+1)
		twin := vxText(all, append(brk2, make([]bool, len(all))...)[:len(all)])
		c.Match(twin)
		c.Match(append([]byte("Copyright 2020 x\n"), in...))
		vxSameResults("history", ref, c.Match(in))
		vxSameResults("repeat", ref, c.Match(in))
	case 3: // tracing enabled with a no-op tracer
		c := vxTwinWorld(0.8, 0, false)
		c.SetTraceConfiguration(&TraceConfiguration{TracePhases: "*", TraceLicenses: "*", Tracer: func(string, ...interface{}) {}})
		vxSameResults("tracing", ref, c.Match(in))
	case 5: // tracing on an input with several candidate ranges (a mangled copy before a verbatim one)
		mangled := "a b c zzz zzz zzz d e f\n"
		long := append([]byte(mangled), in...)
		long = append(long, "\na b c d e f g h\n"...)
		plain := vxTwinWorld(0.8, 0, false).Match(long)
		c := vxTwinWorld(0.8, 0, false)
		c.SetTraceConfiguration(&TraceConfiguration{TracePhases: "*", TraceLicenses: "*", Tracer: func(string, ...interface{}) {}})
		vxSameResults("tracing-multi", plain, c.Match(long))
	case 4: // MatchFrom equals Match
		c := vxTwinWorld(0.8, 0, false)
		r, err := c.MatchFrom(bytes.NewReader(in))
		vxAssert("matchfrom-no-error", err == nil)
		vxSameResults("matchfrom", ref, r)
	}
	vxCover("end")
}

// H04h: what the tokenizer makes of x does not depend on what was tokenized before (buffers, pools,
// dictionaries): x = symbolic bytes, after a call on text with multi-byte characters and after none.
func H04h() {
	x := vxBytes(2)
	fresh := vxTokenizeBytes(x)
	c := NewClassifier(0.8)
	c.AddContent("License", "A", "a.txt", []byte("h\u00e9llo w\u00f6rld \u4e16\u754c licence"))
	c.Match([]byte("caf\u00e9 \u00e9\u00e9\u00e9\u00e9 \U0001F600\U0001F600 \u00fc\u00fc"))
	// the call just before the probe leaves multi-byte text at every alignment in any reused buffer
	prev := []string{"\u00e9\u00e9\u00e9\u00e9", "a\u00e9\u00e9\u00e9", "ab\u00e9\u00e9\u00e9", "a\u4e16\u754c\u4e16", "\u4e16\u754c\u4e16", "ab\U0001F600\U0001F600"}[vxChoice(6)]
	c.Normalize([]byte(prev))
	used := vxTokenizeBytes(x)
	vxSameDoc("history-tokens", fresh, used, true)
	r1 := c.Match(x)
	c.Normalize(x)
	r2 := c.Match(x)
	vxSameResults("history-match", r1, r2)
	vxCover("end")
}

// H04trace: results are the same with every trace phase enabled, also for documents of long words and
// inputs with long runs of missing or foreign words (long diff texts), at a low threshold.
func H04trace() {
	var K []string
	for i := 0; i < 12; i++ {
		K = append(K, strings.Repeat(string(rune('a'+i)), 12))
	}
	t := []float64{0.3, 0.5}[vxChoice(2)]
	build := func() *Classifier {
		c := NewClassifier(t)
		c.AddContent("License", "Long", "v.txt", []byte(strings.Join(K, " ")))
		return c
	}
	p, k := vxChoice(12), vxChoice(9)
	kind := vxChoice(2)
	var X []string
	for i, w := range K {
		if i >= p && i < p+k {
			if kind == 1 {
				X = append(X, "zzzzzzzzzzzz")
			}
			continue
		}
		X = append(X, w)
	}
	in := []byte("qqq\n" + strings.Join(X, " ") + "\nrrr\n")
	plain := build().Match(in)
	c := build()
	c.SetTraceConfiguration(&TraceConfiguration{TracePhases: "*", TraceLicenses: "*", Tracer: func(string, ...interface{}) {}})
	traced := c.Match(in)
	vxSameResults("tracing-long-diffs", plain, traced)
	words := append(append([]string{"qqq"}, X...), "rrr")
	for _, m := range traced.Matches {
		if m.EndTokenIndex < len(words) && m.StartTokenIndex >= 0 {
			L := vxLevenshtein(words[m.StartTokenIndex:m.EndTokenIndex+1], K)
			vxAssert("confidence-not-overstated-traced", m.Confidence <= 1.0-float64(L)/float64(len(K)))
		}
	}
	if len(plain.Matches) > 0 {
		vxCover("has-match")
	}
	vxCover("end")
}

// H04w: none of the four entry points stores into the caller's slice (write-set oracle of the engine).
func H04w()  { h04w(3) }
func H04wQ() { h04w(2) }

func h04w(n int) {
	in := vxBytes(n)
	c := NewClassifier(0.8)
	c.AddContent("License", "A", "a.txt", []byte("a b c d e f"))
	save := append([]byte(nil), in...)
	vxFreeze(in)
	c.Match(in)
	c.MatchFrom(bytes.NewReader(in))
	c.Normalize(in)
	c.AddContent("License", "X", "x.txt", in)
	vxThaw()
	for i := range in {
		vxAssert("input-bytes-unchanged", in[i] == save[i])
	}
	vxCover("end")
}

var _ = sort.Sort
