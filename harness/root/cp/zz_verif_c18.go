//go:build verif

package commentparser

import (
	"strings"
	"unicode/utf8"

	"github.com/google/licenseclassifier/commentparser/language"
)

func init() {
	vxRegister("H18aQ", H18aQ)
	vxRegister("H18aT", H18aT)
	vxRegister("H18a4", H18a4)
	vxRegister("H18a5", H18a5)
	vxRegister("H18tmpl", H18tmpl)
	vxRegister("H18c", H18c)
	vxRegister("H18tables", H18tables)
	vxRegister("H18cMulti", H18cMulti)
}

// one representative per comment-style group (group membership comes from the real tables)
var vxLangs = []language.Language{
	language.C, language.Go, language.JavaScript, language.Swift, language.Rust, language.Python,
	language.Shell, language.Ruby, language.HTML, language.Haskell, language.SQL, language.MySQL,
	language.ObjectiveC, language.Matlab, language.CMake, language.Batch, language.Fortran, language.Lisp,
	language.AppleScript, language.Unknown,
}

// vxSyntax is an independent statement of each language's comment and string syntax (the reference
// lexer must not inherit a wrong table entry from the code under test).
type vxSyntax struct {
	single, mstart, mend string
	nested, rawBackquote  bool
}

var vxBcpl = vxSyntax{single: "//", mstart: "/*", mend: "*/"}
var vxShellS = vxSyntax{single: "#"}

var vxSpec = map[language.Language]vxSyntax{
	language.Assembly: vxBcpl, language.C: vxBcpl, language.CSharp: vxBcpl, language.Dart: vxBcpl, language.Flex: vxBcpl,
	language.GLSLF: vxBcpl, language.Java: vxBcpl, language.JavaScript: vxBcpl, language.Kotlin: vxBcpl,
	language.ObjectiveC: vxBcpl, language.Shader: vxBcpl, language.SWIG: vxBcpl, language.TypeScript: vxBcpl,
	language.Yacc: vxBcpl, language.Verilog: vxBcpl, language.SystemVerilog: vxBcpl, language.SDF: vxBcpl, language.SPEF: vxBcpl,
	language.Go:    {single: "//", mstart: "/*", mend: "*/", rawBackquote: true},
	language.Swift: {single: "//", mstart: "/*", mend: "*/", nested: true},
	language.Rust:  {single: "//"},
	language.Batch: {single: "@REM"},
	language.BLIF:  vxShellS, language.TCL: vxShellS,
	language.CMake:   {single: "#", mstart: "#[[", mend: "]]"},
	language.Fortran: {single: "!"},
	language.Haskell: {single: "--", mstart: "{-", mend: "-}"},
	language.HTML:    {mstart: "<!--", mend: "-->"}, language.Markdown: {mstart: "<!--", mend: "-->"},
	language.Clojure: {single: ";"}, language.Lisp: {single: ";"},
	language.Ruby: {single: "#", mstart: "=begin", mend: "=end"},
	language.Clif: vxShellS, language.Elixir: vxShellS, language.NinjaBuild: vxShellS, language.Perl: vxShellS,
	language.Python: vxShellS, language.R: vxShellS, language.Shell: vxShellS, language.Yaml: vxShellS,
	language.Matlab: {single: "%", mstart: "%{", mend: "%}"},
	language.MySQL:  {single: "#", mstart: "/*", mend: "*/"},
	language.SQL:    {single: "--"},
	language.Unknown: {},
}

// vxCheckTables asserts that the real language tables say what the specification says.
func vxCheckTables(lang language.Language) {
	sp, ok := vxSpec[lang]
	if !ok {
		return
	}
	vxAssert("table-single-line-start", lang.SingleLineCommentStart() == sp.single)
	vxAssert("table-multi-line-start", lang.MultilineCommentStart() == sp.mstart)
	vxAssert("table-multi-line-end", lang.MultilineCommentEnd() == sp.mend)
	vxAssert("table-nested", lang.NestedComments() == sp.nested)
	ok1, esc1 := lang.QuoteCharacter('"')
	ok2, esc2 := lang.QuoteCharacter('\'')
	vxAssert("table-quotes", ok1 && esc1 && ok2 && esc2)
	ok3, esc3 := lang.QuoteCharacter('`')
	vxAssert("table-backquote", ok3 == sp.rawBackquote && !esc3)
}

// H18tables: every language's table entries against the specification.
func H18tables() {
	for l := language.Unknown; l <= language.Yaml; l++ {
		vxCheckTables(l)
	}
	vxCover("end")
}

type vxRefComment struct {
	start, end int
	text       string
}

func vxHasPrefixAt(s string, pos int, p string) bool {
	return p != "" && len(s)-pos >= len(p) && s[pos:pos+len(p)] == p
}

// vxRefLex is the straightforward lexer: at each position a string literal, else a multi-line
// comment, else a single-line comment, else skip one rune - driven by the same language tables.
func vxRefLex(s string, lang language.Language) (out []vxRefComment) {
	if len(s) == 0 {
		return nil
	}
	if !strings.HasSuffix(s, "\n") {
		s += "\n"
	}
	line := 1
	col := 0 // runes since line start
	pos := 0
	adv := func() rune {
		r, size := utf8.DecodeRuneInString(s[pos:])
		pos += size
		if r == '\n' {
			line++
			col = 0
		} else {
			col++
		}
		return r
	}
	advStr := func(p string) {
		end := pos + len(p)
		for pos < end {
			adv()
		}
	}
	multis := func() (string, string) {
		st, en := lang.MultilineCommentStart(), lang.MultilineCommentEnd()
		if vxHasPrefixAt(s, pos, st) {
			return st, en
		}
		if lang == language.SQL && vxHasPrefixAt(s, pos, language.MySQL.MultilineCommentStart()) {
			return language.MySQL.MultilineCommentStart(), language.MySQL.MultilineCommentEnd()
		}
		if lang == language.ObjectiveC && vxHasPrefixAt(s, pos, language.Matlab.MultilineCommentStart()) {
			return language.Matlab.MultilineCommentStart(), language.Matlab.MultilineCommentEnd()
		}
		return "", ""
	}
	single := func() string {
		if st := lang.SingleLineCommentStart(); vxHasPrefixAt(s, pos, st) {
			return st
		}
		if lang == language.SQL && vxHasPrefixAt(s, pos, language.MySQL.SingleLineCommentStart()) {
			return language.MySQL.SingleLineCommentStart()
		}
		if lang == language.ObjectiveC && vxHasPrefixAt(s, pos, language.Matlab.SingleLineCommentStart()) {
			return language.Matlab.SingleLineCommentStart()
		}
		return ""
	}
	for pos < len(s) {
		c, _ := utf8.DecodeRuneInString(s[pos:])
		if (c == '"' || c == '\'' || c == '`') && lang != language.HTML {
			if ok, esc := lang.QuoteCharacter(c); ok {
				quote := string(c)
				doc := false
				if lang == language.Python && vxHasPrefixAt(s, pos, quote+quote+quote) {
					quote = quote + quote + quote
					doc = col == 0
				}
				advStr(quote)
				startLine := line
				var content strings.Builder
				closed := false
				for pos < len(s) {
					r, _ := utf8.DecodeRuneInString(s[pos:])
					if esc && r == '\\' {
						adv() // the escape; the escaped rune is consumed below
						if pos >= len(s) {
							break
						}
					} else if vxHasPrefixAt(s, pos, quote) {
						advStr(quote)
						closed = true
						break
					} else if (lang == language.JavaScript || lang == language.Perl) && r == '\n' {
						closed = true // the newline ends the literal and is lexed normally
						break
					}
					x := adv()
					if doc {
						content.WriteRune(x)
					}
				}
				if !closed {
					return out // EOF inside a string: nothing after it is a comment
				}
				if doc {
					out = append(out, vxRefComment{startLine, line, content.String()})
				}
				continue
			}
		}
		if st, en := multis(); st != "" {
			advStr(st)
			startLine := line
			var text strings.Builder
			nesting := 0
			closed := false
			for pos < len(s) {
				if vxHasPrefixAt(s, pos, en) {
					advStr(en)
					if nesting > 0 {
						text.WriteString(en)
						nesting--
						continue
					}
					closed = true
					break
				}
				if lang.NestedComments() && vxHasPrefixAt(s, pos, st) {
					advStr(st)
					text.WriteString(st)
					nesting++
					continue
				}
				text.WriteRune(adv())
			}
			if !closed {
				return out
			}
			out = append(out, vxRefComment{startLine, line, text.String()})
			continue
		}
		if st := single(); st != "" {
			startLine := line
			advStr(st)
			var text strings.Builder
			for pos < len(s) {
				r, _ := utf8.DecodeRuneInString(s[pos:])
				if r == '\n' {
					break
				}
				text.WriteRune(adv())
			}
			out = append(out, vxRefComment{startLine, line, text.String()})
			continue
		}
		adv()
	}
	return out
}

func vxCompare(tag string, got Comments, want []vxRefComment) {
	vxAssert(tag+"-count", len(got) == len(want))
	if len(got) != len(want) {
		return
	}
	for i := range got {
		vxAssert(tag+"-start-line", got[i].StartLine == want[i].start)
		vxAssert(tag+"-end-line", got[i].EndLine == want[i].end)
		vxAssert(tag+"-text", got[i].Text == want[i].text)
	}
}

func H18aQ() { h18a(vxString(2), vxLangs[vxChoice(len(vxLangs))]) }
func H18aT() { h18a(vxString(3), vxLangs[vxChoice(len(vxLangs))]) }
func H18a4() { h18a(vxString(4), vxLangs[vxChoice(len(vxLangs))]) }
func H18a5() { h18a(vxString(5), vxLangs[vxChoice(len(vxLangs))]) }

// H18tmpl: lexeme adjacency - one complete concrete lexeme between symbolic bytes.
func H18tmpl() {
	lang := []language.Language{language.C, language.Go, language.Swift, language.Python, language.Shell, language.Haskell, language.HTML}[vxChoice(7)]
	var lexemes []string
	lexemes = append(lexemes, "\"s\"", "'c'", "\"\"", "\"a\\\"b\"", "'\\''", "`r`", "`\\`", "`a\\`")
	if st := lang.MultilineCommentStart(); st != "" {
		lexemes = append(lexemes, st+"m"+lang.MultilineCommentEnd(), st+lang.MultilineCommentEnd(), st+"a\nb"+lang.MultilineCommentEnd())
	}
	if st := lang.SingleLineCommentStart(); st != "" {
		lexemes = append(lexemes, st+"x\n")
	}
	if st, en := lang.MultilineCommentStart(), lang.MultilineCommentEnd(); st != "" {
		// nesting two and three levels deep (only Swift nests; the others end at the first terminator)
		lexemes = append(lexemes, st+st+st+en+en+en, st+" a "+st+" b "+st+" c "+en+" b "+en+" a "+en, st+st+en+st+en+en)
	}
	lx := lexemes[vxChoice(len(lexemes))]
	h18a(vxString(1)+lx+vxString(2), lang)
}

// h18a: Parse returns exactly the comments of the reference lexer (text, start and end line).
func h18a(src string, lang language.Language) {
	got := Parse([]byte(src), lang)
	want := vxRefLex(src, lang)
	vxCompare("parse", got, want)
	vxCover("end")
}

// H18c: (single-line comments; H18cMulti adds multi-line comments, for which the pinned test suite
// itself expects every multi-line comment to be a chunk of its own - known finding)
// ChunkIterator delivers every comment exactly once, in order, grouped into maximal
// runs of comments on consecutive lines.
func H18c()      { h18c(false) }
func H18cMulti() { h18c(true) }

func h18c(multi bool) {
	n := vxChoice(4) + 1
	var cs Comments
	line := 0
	for i := 0; i < n; i++ {
		gap := vxChoice(3) + 1   // next comment starts 1..3 lines after the previous one ended
		span := 0
		if multi {
			span = vxChoice(3) // and covers 1..3 lines
		}
		start := line + gap
		end := start + span
		cs = append(cs, &Comment{StartLine: start, EndLine: end, Text: "t"})
		line = end
	}
	var flat Comments
	var chunks []Comments
	for ch := range cs.ChunkIterator() {
		vxAssert("chunk-nonempty", len(ch) > 0)
		chunks = append(chunks, ch)
		flat = append(flat, ch...)
	}
	vxAssert("every-comment-once", len(flat) == len(cs))
	if len(flat) == len(cs) {
		for i := range cs {
			vxAssert("in-order", flat[i] == cs[i])
		}
	}
	// maximal runs: inside a chunk consecutive comments are adjacent (next starts on the line after
	// the previous ends); across chunks they are not
	for ci, ch := range chunks {
		for i := 1; i < len(ch); i++ {
			vxAssert("chunk-consecutive", ch[i].StartLine == ch[i-1].EndLine+1)
		}
		if ci > 0 {
			prev := chunks[ci-1]
			vxAssert("chunk-maximal", ch[0].StartLine != prev[len(prev)-1].EndLine+1)
		}
	}
	vxCover("end")
}
