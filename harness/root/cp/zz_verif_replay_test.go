//go:build verif

package commentparser

import (
	"encoding/json"
	"os"
	"testing"
)

// TestVxReplay re-runs a solver-produced counterexample against the natively compiled code.
func TestVxReplay(t *testing.T) {
	path := os.Getenv("VX_REPLAY")
	if path == "" {
		t.Skip("VX_REPLAY not set")
	}
	name, err := vxLoadReplay(path)
	if err != nil {
		t.Fatal(err)
	}
	fails := vxRunReplay(name)
	for _, f := range fails {
		t.Errorf("VXFAIL %s", f)
	}
	if len(fails) == 0 {
		t.Logf("VXPASS %s", name)
	}
}

// TestVxEmit runs a concrete conformance harness natively and prints what it emitted.
func TestVxEmit(t *testing.T) {
	name := os.Getenv("VX_EMIT")
	if name == "" {
		t.Skip("VX_EMIT not set")
	}
	f := vxHarnesses[name]
	if f == nil {
		t.Fatalf("no harness %s", name)
	}
	vxEmitted = nil
	f()
	b, _ := json.Marshal(vxEmitted)
	os.WriteFile(os.Getenv("VX_EMIT_OUT"), b, 0o644)
}
