//go:build verif

// Harness vocabulary.  Under the symbolic executor (gosx) these functions are
// intercepted by name; the bodies below are what runs in a native replay,
// where the inputs come from a replay file written by the engine.
package commentparser

import (
	"encoding/json"
	"fmt"
	"math"
	"os"
)

type vxRec struct {
	Name string `json:"name"`
	Kind string `json:"kind"`
	Val  uint64 `json:"val"`
}

type vxReplayFile struct {
	Harness string  `json:"harness"`
	Label   string  `json:"label"`
	Vx      []vxRec `json:"vx"`
}

var vxState struct {
	vals   []vxRec
	pos    int
	fails  []string
	covers []string
}

type vxAssumeFailed struct{}

var vxHarnesses = map[string]func(){}

func vxRegister(name string, f func()) { vxHarnesses[name] = f }

// vxLoadReplay reads a replay file; used by the replay test.
func vxLoadReplay(path string) (string, error) {
	b, err := os.ReadFile(path)
	if err != nil {
		return "", err
	}
	var rf vxReplayFile
	if err := json.Unmarshal(b, &rf); err != nil {
		return "", err
	}
	vxState.vals = rf.Vx
	vxState.pos = 0
	vxState.fails = nil
	return rf.Harness, nil
}

func vxNext() uint64 {
	if vxState.pos >= len(vxState.vals) {
		vxState.pos++
		return 0
	}
	v := vxState.vals[vxState.pos].Val
	vxState.pos++
	return v
}

func vxByte() byte     { return byte(vxNext()) }
func vxBool() bool     { return vxNext() != 0 }
func vxRune() rune     { return rune(int32(uint32(vxNext()))) }
func vxInt64() int64   { return int64(vxNext()) }
func vxInt(lo, hi int) int {
	v := int(int64(vxNext()))
	if v < lo || v > hi {
		panic(vxAssumeFailed{})
	}
	return v
}
func vxFloat64(lo, hi float64) float64 {
	v := math.Float64frombits(vxNext())
	if !(lo <= v && v <= hi) {
		panic(vxAssumeFailed{})
	}
	return v
}
func vxBytes(n int) []byte {
	out := make([]byte, n)
	for i := range out {
		out[i] = vxByte()
	}
	return out
}
func vxString(n int) string { return string(vxBytes(n)) }
func vxChoice(n int) int {
	v := int(vxNext())
	if v < 0 || v >= n {
		panic(vxAssumeFailed{})
	}
	return v
}
func vxConcrete(x int) int         { return x }
func vxConcreteByte(x byte) byte   { return x }
func vxAssume(ok bool) {
	if !ok {
		panic(vxAssumeFailed{})
	}
}
func vxAssert(label string, ok bool) {
	if !ok {
		vxState.fails = append(vxState.fails, label)
	}
}
var vxEmitted []string

func vxEmit(label, s string) { vxEmitted = append(vxEmitted, label+"="+s) }
func vxCover(label string)            { vxState.covers = append(vxState.covers, label) }
func vxFreeze(roots ...interface{})   {}
func vxThaw()                         {}
func vxMapOrder(mode int)             {}
func vxStub(name string, f interface{}) {}
func vxUnstub(name string)            {}
func vxEvents(on bool)                {}
func vxTrack(roots ...interface{})    {}
func vxOr(a, b bool) bool             { return a || b }
func vxAnd(a, b bool) bool            { return a && b }
func vxImplies(a, b bool) bool        { return !a || b }
func vxIteByte(c bool, a, b byte) byte {
	if c {
		return a
	}
	return b
}
func vxIteInt(c bool, a, b int) int {
	if c {
		return a
	}
	return b
}
func vxRaceFree() bool                { return true }
func vxNative() bool                  { return true }
func vxIsSymbolic(x interface{}) bool { return false }
func vxPanics(f func()) (p bool) {
	defer func() {
		if r := recover(); r != nil {
			if _, ok := r.(vxAssumeFailed); ok {
				panic(r)
			}
			p = true
		}
	}()
	f()
	return false
}

// vxRunReplay runs the named harness on the loaded replay values and
// returns the failed assertion labels (a panic is reported as "panic: ...").
func vxRunReplay(name string) (fails []string) {
	f := vxHarnesses[name]
	if f == nil {
		return []string{"no such harness: " + name}
	}
	defer func() {
		if r := recover(); r != nil {
			if _, ok := r.(vxAssumeFailed); ok {
				fails = append(vxState.fails, "assumption-failed-in-replay")
				return
			}
			fails = append(vxState.fails, fmt.Sprintf("panic: %v", r))
		}
	}()
	f()
	return vxState.fails
}
