//go:build verif

package searchset

func init() {
	vxRegister("H17bQ", H17bQ)
	vxRegister("H17bV", H17bV)
	vxRegister("H17bT", H17bT)
}

// vxWords builds n single-letter words over {a,b} (symbolic choice per word), space separated.
func vxWords(n int) string {
	s := ""
	for i := 0; i < n; i++ {
		if i > 0 {
			s += " "
		}
		s += []string{"a", "b", "c", "d"}[vxChoice(vxVocab)]
	}
	return s
}

var vxVocab = 2

// H17bV: a richer vocabulary (a source that repeats a phrase the target has only once)
func H17bV() {
	vxVocab = 3
	h17b(vxChoice(2)+5, vxChoice(2)+3, DefaultGranularity)
}

func H17bQ() { h17b(vxChoice(4)+1, vxChoice(6)+1, DefaultGranularity) }
func H17bT() { h17b(vxChoice(5)+1, vxChoice(8)+1, vxChoice(3)+1) }

// h17b: every candidate range of FindPotentialMatches delimits real target text.
func h17b(ns, nt, gran int) {
	src, tgt := vxWords(ns), vxWords(nt)
	ss, ts := New(src, gran), New(tgt, gran)
	ms := FindPotentialMatches(ss, ts)
	prev := -1
	for _, m := range ms {
		vxAssert("candidate-nonempty", len(m) > 0)
		if len(m) == 0 {
			continue
		}
		vxAssert("candidates-ordered-by-target", m[0].TargetStart >= prev)
		prev = m[0].TargetStart
		for _, r := range m {
			vxAssert("range-target-bounds", 0 <= r.TargetStart && r.TargetStart < r.TargetEnd && r.TargetEnd <= len(ts.Tokens))
		}
		start, end := m.TargetRange(ts)
		vxAssert("byte-range", 0 <= start && start <= end && end <= len(tgt))
	}
	vxCover("end")
}
