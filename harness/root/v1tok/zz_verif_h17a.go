//go:build verif

package tokenizer

import (
	"unicode"
	"unicode/utf8"
)

func init() {
	vxRegister("H17a2", H17a2)
	vxRegister("H17a3", H17a3)
	vxRegister("H17a4", H17a4)
	vxRegister("H17a5", H17a5)
	vxRegister("H17a7", H17a7)
	vxRegister("H17a8", H17a8)
	vxRegister("H17a9", H17a9)
	vxRegister("H17aT", H17aT)
}

func H17a1() { h17a(vxString(1)) }
func H17a2() { h17a(vxString(2)) }
func H17a3() { h17a(vxString(3)) }
func H17a4() { h17a(vxString(4)) }
func H17a5() { h17a(vxString(5)) }
func H17a7() { h17a(vxString(7)) }
func H17a8() { h17a(vxString(8)) }
func H17a9() { h17a(vxString(9)) }

// H17aT: templates - concrete words around two symbolic bytes.
func H17aT() {
	h17a("ab " + vxString(2) + ",c")
}

// h17a: token offsets reproduce the token text from s, in increasing
// non-overlapping order, covering every non-space character.
func h17a(s string) {
	toks := Tokenize(s)
	covered := make([]bool, len(s))
	end := 0
	for _, t := range toks {
		vxAssert("offset-nonneg", t.Offset >= 0)
		vxAssert("offset-increasing", t.Offset >= end)
		vxAssert("nonempty", len(t.Text) > 0)
		vxAssert("inside", t.Offset+len(t.Text) <= len(s))
		vxAssert("text-matches-source", s[t.Offset:t.Offset+len(t.Text)] == t.Text)
		end = t.Offset + len(t.Text)
		for i := t.Offset; i < end; i++ {
			covered[i] = true
		}
	}
	for i := 0; i < len(s); {
		r, size := utf8.DecodeRuneInString(s[i:])
		if !unicode.IsSpace(r) {
			for j := i; j < i+size; j++ {
				vxAssert("non-space-covered", covered[j])
			}
		} else {
			for j := i; j < i+size; j++ {
				vxAssert("space-not-in-token", !covered[j])
			}
		}
		i += size
	}
	vxCover("end")
}
