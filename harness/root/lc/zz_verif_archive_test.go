//go:build verif

package licenseclassifier

import (
	"archive/tar"
	"bytes"
	"compress/gzip"
)

// The package's TestMain builds a License from licenses.db, which is not part of the checkout;
// serve an empty, well-formed archive instead so that the replay test can run.
func init() {
	orig := ReadLicenseFile
	if _, err := orig(LicenseArchive); err == nil {
		return
	}
	ReadLicenseFile = func(name string) ([]byte, error) {
		if name != LicenseArchive {
			return orig(name)
		}
		var b bytes.Buffer
		gw := gzip.NewWriter(&b)
		tw := tar.NewWriter(gw)
		tw.Close()
		gw.Close()
		return b.Bytes(), nil
	}
}
