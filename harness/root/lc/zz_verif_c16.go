//go:build verif

package licenseclassifier

import (
	"strings"

	"github.com/google/licenseclassifier/stringclassifier"
)

func init() {
	vxRegister("H16a", H16a)
	vxRegister("H16w", H16w)
}

// H16w: the threshold predicate itself - whatever it admits is at or above the threshold
// (exact float64 semantics of  conf > T || |conf-T| < 4.9e-324).
func H16w() {
	T := vxFloat64(0, 1)
	conf := vxFloat64(0, 1)
	l := &License{Threshold: T}
	ok := l.WithinConfidenceThreshold(conf)
	vxAssert("admitted-implies-at-least-threshold", !ok || conf >= T)
	vxAssert("at-least-threshold-implies-admitted", !(conf >= T) || ok)
	vxCover("end")
}

// H16a: License.MultipleMatch never returns a match below the classifier's threshold; the inner
// string classifier is replaced by a stub returning matches with symbolic confidences.
func H16a() {
	if vxNative() {
		vxC16Battery()
		return
	}
	T := vxFloat64(0, 1)
	l := &License{c: stringclassifier.New(T), Threshold: T}
	names := []string{"MIT", "Apache-2.0.header", "GPL-2.0", "AGPL-3.0"}
	n := vxChoice(3) + 1
	var inner stringclassifier.Matches
	for i := 0; i < n; i++ {
		inner = append(inner, &stringclassifier.Match{Name: names[vxChoice(len(names))], Confidence: vxFloat64(0, 1), Offset: i * 10, Extent: 5})
	}
	vxStub("(*github.com/google/licenseclassifier/stringclassifier.Classifier).MultipleMatch", func(c *stringclassifier.Classifier, s string) stringclassifier.Matches {
		return inner
	})
	res := l.MultipleMatch("this software is under the terms of the license, version 2 of the GNU Affero General Public License", vxBool())
	for _, m := range res {
		vxAssert("returned-match-at-least-threshold", m.Confidence >= T)
	}
	vxUnstub("(*github.com/google/licenseclassifier/stringclassifier.Classifier).MultipleMatch")
	vxCover("end")
}

const vxC16Text = "permission is hereby granted free of charge to any person obtaining a copy of this software and associated documentation files to deal in the software without restriction including without limitation the rights to use copy modify merge publish distribute sublicense and sell copies of the software subject to the following conditions of this license"

const vxC16Phrases = " gnu affero general public license do what the fuck you want to public license"

// vxC16Battery is the native counterpart of H16a (the stub of the inner classifier exists only under
// the engine): real known values, header and full-text names, inputs whose confidence falls on
// both sides of several thresholds, includeHeaders on and off.
func vxC16Battery() {
	words := strings.Fields(vxC16Text)
	for _, T := range []float64{0.5, 0.75, 0.8, 0.9} {
		// forbidden names take the signature-phrase branch of MultipleMatch: their text (and every
		// input) ends with the phrases forbiddenRegexps looks for, which the edits below leave alone
		for _, name := range []string{"MIT", "MIT.header", "AGPL-3.0", "AGPL-3.0.header", "WTFPL"} {
			l := &License{c: stringclassifier.New(T, Normalizers...), Threshold: T}
			l.c.AddValue(name, normalizeText(vxC16Text+vxC16Phrases))
			for _, k := range []int{3, 4, 5, 6, 7, 8, 10, 20} {
				w := append([]string(nil), words...)
				var ins []string // insertions keep the token overlap (the inner pre-filter) and lower the edit confidence
				for i := range w {
					ins = append(ins, w[i])
					if i%k == k-1 {
						w[i] = "zzz"
						ins = append(ins, "zzz", "yyy", "xxx")
					}
				}
				for _, in := range []string{strings.Join(w, " ") + vxC16Phrases, strings.Join(ins, " ") + vxC16Phrases} {
					for _, hdr := range []bool{true, false} {
						for _, m := range l.MultipleMatch(in, hdr) {
							vxAssert("returned-match-at-least-threshold", m.Confidence >= T)
						}
					}
				}
			}
		}
	}
}
