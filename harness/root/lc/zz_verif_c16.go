//go:build verif

package licenseclassifier

import (
	"github.com/google/licenseclassifier/stringclassifier"
)

func init() {
	vxRegister("H16a", H16a)
	vxRegister("H16w", H16w)
}

// H16w: the threshold predicate itself - whatever it admits is at or above the threshold
// (exact float64 semantics of  conf > T || |conf-T| < 4.9e-324).
func H16w() {
	T := vxFloat64(0, 1)
	conf := vxFloat64(0, 1)
	l := &License{Threshold: T}
	ok := l.WithinConfidenceThreshold(conf)
	vxAssert("admitted-implies-at-least-threshold", !ok || conf >= T)
	vxAssert("at-least-threshold-implies-admitted", !(conf >= T) || ok)
	vxCover("end")
}

// H16a: License.MultipleMatch never returns a match below the classifier's threshold; the inner
// string classifier is replaced by a stub returning matches with symbolic confidences.
func H16a() {
	T := vxFloat64(0, 1)
	l := &License{c: stringclassifier.New(T), Threshold: T}
	names := []string{"MIT", "Apache-2.0.header", "GPL-2.0", "AGPL-3.0"}
	n := vxChoice(3) + 1
	var inner stringclassifier.Matches
	for i := 0; i < n; i++ {
		inner = append(inner, &stringclassifier.Match{Name: names[vxChoice(len(names))], Confidence: vxFloat64(0, 1), Offset: i * 10, Extent: 5})
	}
	vxStub("(*github.com/google/licenseclassifier/stringclassifier.Classifier).MultipleMatch", func(c *stringclassifier.Classifier, s string) stringclassifier.Matches {
		return inner
	})
	res := l.MultipleMatch("this software is under the terms of the license, version 2 of the GNU Affero General Public License", vxBool())
	for _, m := range res {
		vxAssert("returned-match-at-least-threshold", m.Confidence >= T)
	}
	vxUnstub("(*github.com/google/licenseclassifier/stringclassifier.Classifier).MultipleMatch")
	vxCover("end")
}
