//go:build verif

package sets

func init() {
	vxRegister("H20sInt", H20sInt)
	vxRegister("H20sIntQ", H20sIntQ)
	vxRegister("H20sInt4", H20sInt4)
	vxRegister("H20sIntSeq", H20sIntSeq)
}

func vxInInts(x int, l []int) bool {
	r := false
	for _, e := range l {
		r = vxOr(r, e == x)
	}
	return r
}

// vxDistinctInts counts distinct values in l (forks on equality patterns).
func vxDistinctInts(l []int) int {
	n := 0
	for i, e := range l {
		dup := false
		for _, f := range l[:i] {
			if e == f {
				dup = true
				break
			}
		}
		if !dup {
			n++
		}
	}
	return n
}

func vxBuildInts(max int) ([]int, *IntSet) {
	n := vxChoice(max + 1)
	elems := make([]int, n)
	for i := range elems {
		elems[i] = int(vxInt64())
	}
	return elems, NewIntSet(elems...)
}

const vxSetOps = 15

// H20sInt: one step of every IntSet operation from an arbitrary state, checked
// against the mathematical set model through a universally quantified probe.
func H20sInt()  { h20sInt(3) }
func H20sInt4() { h20sInt(4) }
func H20sIntQ() { h20sInt(2) }

func h20sInt(max int) {
	ae, A := vxBuildInts(max)
	be, B := vxBuildInts(max)
	x := int(vxInt64()) // probe
	inA, inB := vxInInts(x, ae), vxInInts(x, be)
	op := vxChoice(vxSetOps)
	checkUnchanged := true
	var res *IntSet
	switch op {
	case 0: // Insert
		y, z := int(vxInt64()), int(vxInt64())
		A.Insert(y, z)
		vxAssert("insert-membership", A.Contains(x) == vxOr(inA, vxOr(x == y, x == z)))
		checkUnchanged = false
		vxAssert("insert-B-unchanged", B.Contains(x) == inB)
	case 1: // Delete
		y := int(vxInt64())
		z := int(vxInt64())
		A.Delete(y, z, y) // several arguments, possibly equal to each other
		vxAssert("delete-membership", A.Contains(x) == vxAnd(inA, vxAnd(x != y, x != z)))
		checkUnchanged = false
		vxAssert("delete-B-unchanged", B.Contains(x) == inB)
	case 2:
		res = A.Union(B)
		vxAssert("union", res.Contains(x) == vxOr(inA, inB))
	case 3:
		res = A.Intersect(B)
		vxAssert("intersect", res.Contains(x) == vxAnd(inA, inB))
	case 4:
		res = A.Difference(B)
		vxAssert("difference", res.Contains(x) == vxAnd(inA, !inB))
	case 5:
		res = A.Unique(B)
		vxAssert("unique", res.Contains(x) == (inA != inB))
	case 6:
		d := A.Disjoint(B)
		// d must be false iff some element is in both: probe direction + witness direction
		vxAssert("disjoint-sound", vxImplies(vxAnd(inA, inB), !d))
		common := false
		for _, e := range ae {
			common = vxOr(common, vxInInts(e, be))
		}
		vxAssert("disjoint-complete", d == !common)
	case 7:
		eq := A.Equal(B)
		vxAssert("equal-sound", vxImplies(eq, inA == inB))
		same := true
		for _, e := range ae {
			same = vxAnd(same, vxInInts(e, be))
		}
		for _, e := range be {
			same = vxAnd(same, vxInInts(e, ae))
		}
		vxAssert("equal-complete", eq == same)
	case 8:
		res = A.Copy()
		vxAssert("copy", res.Contains(x) == inA)
	case 9:
		vxAssert("contains", A.Contains(x) == inA)
	case 10:
		vxAssert("len", A.Len() == vxDistinctInts(ae))
		vxAssert("empty", A.Empty() == (len(ae) == 0))
	case 11:
		el := A.Elements()
		vxAssert("elements-nonnil", el != nil)
		vxAssert("elements-len", len(el) == vxDistinctInts(ae))
		vxAssert("elements-membership", vxInInts(x, el) == inA)
	case 12:
		el := A.Sorted()
		vxAssert("sorted-len", len(el) == vxDistinctInts(ae))
		vxAssert("sorted-membership", vxInInts(x, el) == inA)
		for i := 1; i < len(el); i++ {
			vxAssert("sorted-ascending", el[i-1] < el[i])
		}
	case 13: // nil operand conventions
		var nilSet *IntSet
		vxAssert("union-nil", A.Union(nilSet).Contains(x) == inA)
		vxAssert("intersect-nil", !A.Intersect(nilSet).Contains(x))
		vxAssert("difference-nil", A.Difference(nilSet).Contains(x) == inA)
		vxAssert("unique-nil", A.Unique(nilSet).Contains(x) == inA)
		vxAssert("disjoint-nil", A.Disjoint(nilSet))
		vxAssert("equal-nil", !A.Equal(nilSet))
		vxAssert("copy-nil", nilSet.Copy().Len() == 0)
	case 14: // results of binary operations are fresh: mutating them leaves the operands alone
		y := int(vxInt64())
		which := vxChoice(5)
		switch which {
		case 0:
			res = A.Union(B)
		case 1:
			res = A.Intersect(B)
		case 2:
			res = A.Difference(B)
		case 3:
			res = A.Unique(B)
		case 4:
			res = A.Copy()
		}
		res.Insert(y)
		vxAssert("no-alias-A-insert", A.Contains(x) == inA)
		vxAssert("no-alias-B-insert", B.Contains(x) == inB)
		res.Delete(x)
		vxAssert("no-alias-A-delete", A.Contains(x) == inA)
		vxAssert("no-alias-B-delete", B.Contains(x) == inB)
		res = nil
	}
	if checkUnchanged {
		vxAssert("operand-A-unchanged", A.Contains(x) == inA)
		vxAssert("operand-B-unchanged", B.Contains(x) == inB)
		vxAssert("operand-A-len", A.Len() == vxDistinctInts(ae))
		vxAssert("operand-B-len", B.Len() == vxDistinctInts(be))
	}
	if res != nil {
		vxAssert("result-fresh", res != A && res != B)
	}
	vxCover("end")
}

// H20sIntSeq: sequences of three mutating operations on one set, against a list model.
func H20sIntSeq() {
	S := NewIntSet()
	var model []int // multiset of inserted-and-not-deleted values
	x := int(vxInt64())
	for step := 0; step < 3; step++ {
		y := int(vxInt64())
		if vxBool() {
			S.Insert(y)
			model = append(model, y)
		} else {
			S.Delete(y)
			var nm []int
			for _, e := range model {
				if e != y {
					nm = append(nm, e)
				}
			}
			model = nm
		}
		vxAssert("seq-membership", S.Contains(x) == vxInInts(x, model))
		vxAssert("seq-len", S.Len() == vxDistinctInts(model))
	}
	vxCover("end")
}
