//go:build verif

package sets

func init() {
	vxRegister("H20sSmoke", H20sSmoke)
}

// H20sSmoke: Insert then Contains on symbolic elements.
func H20sSmoke() {
	a, b, x := int(vxInt64()), int(vxInt64()), int(vxInt64())
	s := NewIntSet(a, b)
	want := x == a || x == b
	vxAssert("contains", s.Contains(x) == want)
	wl := 2
	if a == b {
		wl = 1
	}
	vxAssert("len", s.Len() == wl)
	vxCover("end")
}
