//go:build verif

package pq

func init() {
	vxRegister("H20qStep", H20qStep)
	vxRegister("H20qStepQ", H20qStepQ)
	vxRegister("H20qStep9", H20qStep9)
	vxRegister("H20qStep13", H20qStep13)
	vxRegister("H20qBase", H20qBase)
}

type vxItem struct {
	prio  int64
	id    int
	index int
}

func vxLess(x, y interface{}) bool { return x.(*vxItem).prio < y.(*vxItem).prio }
func vxSetIndex(x interface{}, idx int) { x.(*vxItem).index = idx }

// vxArbitraryHeap builds a queue holding n items in an arbitrary valid heap arrangement.
func vxArbitraryHeap(n int) (*Queue, []*vxItem) {
	q := NewQueue(vxLess, vxSetIndex)
	items := make([]*vxItem, n)
	for i := range items {
		items[i] = &vxItem{prio: vxInt64(), id: i, index: i}
		q.heap.a = append(q.heap.a, items[i])
	}
	for i := 1; i < n; i++ {
		vxAssume(items[(i-1)/2].prio <= items[i].prio) // representation invariant: heap order
	}
	return q, items
}

// vxCheckHeap asserts the representation invariant and index accuracy.
func vxCheckHeap(q *Queue, tag string) {
	a := q.heap.a
	for i := 0; i < len(a); i++ {
		it := a[i].(*vxItem)
		vxAssert(tag+"-index-accurate", it.index == i)
		if i > 0 {
			vxAssert(tag+"-heap-order", a[(i-1)/2].(*vxItem).prio <= it.prio)
		}
	}
}

func H20qStep()  { h20qStep(6) }
func H20qStep9() { h20qStep(9) }
func H20qStep13() { h20qStep(13) }
func H20qStepQ() { h20qStep(6) }

// h20qStep: one operation from an arbitrary valid heap (inductive step).
func h20qStep(max int) {
	n := vxChoice(max + 1)
	q, items := vxArbitraryHeap(n)
	op := vxChoice(5)
	switch op {
	case 0: // Push
		x := &vxItem{prio: vxInt64(), id: 100, index: -1}
		q.Push(x)
		vxAssert("push-len", q.Len() == n+1)
		vxCheckHeap(q, "push")
		found := 0
		for _, e := range q.heap.a {
			if e.(*vxItem) == x {
				found++
			}
		}
		vxAssert("push-present-once", found == 1)
		for _, it := range items {
			vxAssert("push-conserves", it.index >= 0 && it.index <= n && q.heap.a[it.index].(*vxItem) == it)
		}
	case 1: // Pop
		if n == 0 {
			vxAssert("pop-empty-panics", vxPanics(func() { q.Pop() }))
			break
		}
		min := q.Min().(*vxItem)
		got := q.Pop().(*vxItem)
		vxAssert("pop-returns-min", got == min)
		for _, it := range items {
			vxAssert("pop-minimal", got.prio <= it.prio)
		}
		vxAssert("pop-len", q.Len() == n-1)
		vxCheckHeap(q, "pop")
		for _, it := range items {
			if it != got {
				vxAssert("pop-conserves", it.index >= 0 && it.index < n-1 && q.heap.a[it.index].(*vxItem) == it)
			}
		}
	case 2: // Min
		if n == 0 {
			vxAssert("min-empty-panics", vxPanics(func() { q.Min() }))
			break
		}
		m := q.Min().(*vxItem)
		for _, it := range items {
			vxAssert("min-minimal", m.prio <= it.prio)
		}
		vxAssert("min-keeps-len", q.Len() == n)
	case 3: // Fix after an arbitrary priority change
		if n == 0 {
			break
		}
		i := vxChoice(n)
		it := q.heap.a[i].(*vxItem)
		it.prio = vxInt64()
		q.Fix(it.index)
		vxAssert("fix-len", q.Len() == n)
		vxCheckHeap(q, "fix")
		for _, e := range items {
			vxAssert("fix-conserves", e.index >= 0 && e.index < n && q.heap.a[e.index].(*vxItem) == e)
		}
	case 4: // Remove
		if n == 0 {
			break
		}
		i := vxChoice(n)
		victim := q.heap.a[i].(*vxItem)
		q.Remove(i)
		vxAssert("remove-len", q.Len() == n-1)
		vxCheckHeap(q, "remove")
		for _, e := range items {
			if e != victim {
				vxAssert("remove-conserves", e.index >= 0 && e.index < n-1 && q.heap.a[e.index].(*vxItem) == e)
			}
		}
		for _, e := range q.heap.a {
			vxAssert("remove-gone", e.(*vxItem) != victim)
		}
	}
	vxCover("end")
}

// H20qBase: the invariant is reachable - from the empty queue, 4 pushes of arbitrary
// priorities establish it, and popping everything yields a non-decreasing sequence.
func H20qBase() {
	q := NewQueue(vxLess, vxSetIndex)
	vxCheckHeap(q, "empty")
	for i := 0; i < 4; i++ {
		q.Push(&vxItem{prio: vxInt64(), id: i, index: -1})
		vxCheckHeap(q, "base-push")
	}
	prev := q.Pop().(*vxItem).prio
	for q.Len() > 0 {
		p := q.Pop().(*vxItem).prio
		vxAssert("pop-sequence-sorted", prev <= p)
		prev = p
		vxCheckHeap(q, "base-pop")
	}
	vxCover("end")
}
