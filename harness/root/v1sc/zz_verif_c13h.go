//go:build verif

package stringclassifier

func init() {
	vxRegister("H13h", H13h)
}

// H13h: a verbatim copy is reported whatever the history of the classifier - values registered
// before or after earlier MultipleMatch / NearestMatch calls, queries repeated.
func H13h() {
	v1 := "alpha beta gamma delta"
	v2 := "epsilon zeta eta theta iota"
	c := New(DefaultConfidenceThreshold)
	steps := []int{vxChoice(4), vxChoice(4), vxChoice(4)}
	added1, added2 := false, false
	for _, s := range steps {
		switch s {
		case 0:
			if !added1 {
				c.AddValue("one", v1)
				added1 = true
			}
		case 1:
			if !added2 {
				c.AddValue("two", v2)
				added2 = true
			}
		case 2:
			c.MultipleMatch("kappa " + v1 + " lambda " + v2 + " mu")
		case 3:
			c.NearestMatch(v2)
		}
	}
	if !added1 {
		c.AddValue("one", v1)
	}
	if !added2 {
		c.AddValue("two", v2)
	}
	u := "kappa " + v1 + " lambda " + v2 + " mu"
	ms := c.MultipleMatch(u)
	f1, f2 := false, false
	for _, m := range ms {
		if m.Name == "one" && m.Offset == len("kappa ") && m.Extent == len(v1) && m.Confidence == 1.0 {
			f1 = true
		}
		if m.Name == "two" && m.Offset == len("kappa "+v1+" lambda ") && m.Extent == len(v2) && m.Confidence == 1.0 {
			f2 = true
		}
	}
	vxAssert("verbatim-copy-reported-after-history", f1 && f2)
	nm := c.NearestMatch(v1)
	vxAssert("nearest-after-history", nm.Name == "one" && nm.Confidence == 1.0)
	vxCover("end")
}
