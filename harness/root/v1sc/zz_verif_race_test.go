//go:build verif

package stringclassifier

import (
	"sync"
	"testing"
)

// TestVxRaceV1 confirms a predicted race natively: run with -race.
func TestVxRaceV1(t *testing.T) {
	for round := 0; round < 20; round++ {
		c := vxC14World()
		var wg sync.WaitGroup
		for g := 0; g < 8; g++ {
			wg.Add(1)
			go func(g int) {
				defer wg.Done()
				switch g % 4 {
				case 0:
					c.MultipleMatch("see " + vxVal1 + " here")
				case 1:
					c.MultipleMatch("and " + vxVal2 + " there")
				case 2:
					c.NearestMatch(vxVal1)
				case 3:
					if g == 3 {
						c.AddValue("three", "sphinx of black quartz judge my vow")
					} else {
						c.MultipleMatch("and " + vxVal2 + " there")
					}
				}
			}(g)
		}
		wg.Wait()
	}
}
