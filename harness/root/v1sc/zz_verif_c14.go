//go:build verif

package stringclassifier

import "sync"

func init() {
	vxRegister("H14r", H14r)
	vxRegister("H14rT", H14rT)
	vxRegister("H14seq", H14seq)
}

const vxVal1 = "the quick brown fox jumps over the lazy dog"
const vxVal2 = "pack my box with five dozen liquor jugs now"

// vxC14World: values added through AddValue, hence lazy search sets.
func vxC14World() *Classifier {
	c := New(DefaultConfidenceThreshold, FlattenWhitespace)
	c.AddValue("one", vxVal1)
	c.AddValue("two", vxVal2)
	return c
}

// H14r: SMT happens-before race prediction over the event trace of the real code: two
// MultipleMatch calls, one NearestMatch and one AddValue on one classifier, each in its own goroutine.
func H14r() {
	c := vxC14World()
	vxTrack(c)
	vxEvents(true)
	var wg sync.WaitGroup
	wg.Add(4)
	add := func() { c.AddValue("three", "sphinx of black quartz judge my vow"); wg.Done() }
	// the recorded run fixes the control flow, so record both orders of registration and matching
	addFirst := vxChoice(2) == 1
	if addFirst {
		go add()
	}
	go func() { c.MultipleMatch("see " + vxVal1 + " here"); wg.Done() }()
	go func() { c.MultipleMatch("and " + vxVal2 + " there, sphinx of black quartz judge my vow"); wg.Done() }()
	go func() { c.NearestMatch(vxVal1); wg.Done() }()
	if !addFirst {
		go add()
	}
	wg.Wait()
	vxEvents(false)
	vxAssert("race-free", vxRaceFree())
	vxCover("end")
}

// H14rT: six concurrent calls (three MultipleMatch, two of them on the same value, one NearestMatch,
// two AddValue - a new key and a duplicate key), registration before or after the matches.
func H14rT() {
	c := vxC14World()
	vxTrack(c)
	vxEvents(true)
	var wg sync.WaitGroup
	wg.Add(6)
	adds := func() {
		go func() { c.AddValue("three", "sphinx of black quartz judge my vow"); wg.Done() }()
		go func() { c.AddValue("one", "duplicate key is rejected"); wg.Done() }()
	}
	order := vxChoice(3)
	if order == 0 {
		adds()
	}
	go func() { c.MultipleMatch("see " + vxVal1 + " here"); wg.Done() }()
	go func() { c.MultipleMatch("again " + vxVal1 + " here and " + vxVal2); wg.Done() }()
	if order == 1 {
		adds()
	}
	go func() { c.MultipleMatch("sphinx of black quartz judge my vow " + vxVal2); wg.Done() }()
	go func() { c.NearestMatch("sphinx of black quartz judge my vow"); wg.Done() }()
	if order == 2 {
		adds()
	}
	wg.Wait()
	vxEvents(false)
	vxAssert("race-free", vxRaceFree())
	vxCover("end")
}

// H14seq: the concurrent calls return what they return sequentially (run-to-completion model).
func H14seq() {
	c := vxC14World()
	m1 := c.MultipleMatch("see " + vxVal1 + " here")
	m2 := c.MultipleMatch("see " + vxVal1 + " here")
	vxAssert("repeatable-count", len(m1) == len(m2))
	if len(m1) == len(m2) {
		for i := range m1 {
			vxAssert("repeatable-match", *m1[i] == *m2[i])
		}
	}
	vxAssert("found", len(m1) == 1 && m1[0].Name == "one" && m1[0].Confidence == 1.0)
	vxCover("end")
}
