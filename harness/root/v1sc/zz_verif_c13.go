//go:build verif

package stringclassifier

func init() {
	vxRegister("H13aQ", H13aQ)
	vxRegister("H13aT", H13aT)
	vxRegister("H13bQ", H13bQ)
	vxRegister("H13bT", H13bT)
	vxRegister("H13c", H13c)
	vxRegister("H13dQ", H13dQ)
	vxRegister("H13d2Q", H13d2Q)
	vxRegister("H13dT", H13dT)
}

func H13aQ() { h13a(2) }
func H13aT() { h13a(3) }

// h13a: registering any string as a known value never panics, and a value registered that way is
// found verbatim afterwards.
func h13a(n int) {
	v := vxString(n)
	c := New(DefaultConfidenceThreshold)
	err := c.AddValue("k", v)
	vxAssert("addvalue-no-error", err == nil)
	err = c.AddValue("k", v)
	vxAssert("duplicate-key-rejected", err != nil)
	c2 := New(DefaultConfidenceThreshold)
	c2.AddValue("meta", "foo (bar [baz *+? \\ "+v)
	vxCover("end")
}

func H13bQ() { h13b(2, 2) }
func H13bT() { h13b(2, vxChoice(3)) }

// h13b: every Offset/Extent MultipleMatch reports lies inside the (normalised) unknown string and
// every confidence lies in (0,1], for unknown strings with symbolic bytes (incl. invalid UTF-8).
func h13b(n int, where int) {
	c := New(DefaultConfidenceThreshold)
	c.AddValue("one", "foo bar baz")
	x := vxString(n)
	u := "foo bar baz" + x // the symbolic bytes follow, precede or sit inside the copy
	switch where {
	case 0:
		u = x + "foo bar baz"
	case 1:
		u = "foo bar" + x + " baz foo bar baz"
	}
	for _, m := range c.MultipleMatch(u) {
		vxAssert("offset-inside", m.Offset >= 0 && m.Extent >= 0 && m.Offset+m.Extent <= len(u))
		vxAssert("confidence-range", m.Confidence > 0 && m.Confidence <= 1.0)
	}
	nm := c.NearestMatch(u)
	vxAssert("nearest-confidence-range", nm.Confidence >= 0 && nm.Confidence <= 1.0)
	vxCover("end")
}

// H13c: the confidence arithmetic stays within [0,1] for all lengths and distances.
func H13c() {
	ulen, klen := vxInt(0, 1<<20), vxInt(0, 1<<20)
	d := vxInt(0, 1<<21)
	conf := confidencePercentage(ulen, klen, d)
	vxAssert("confidence-in-unit-interval", conf >= 0 && conf <= 1.0)
	dr := diffRatio(vxString(1)+"", "x")
	vxAssert("diffratio-in-unit-interval", dr >= 0 && dr <= 1.0)
	vxCover("end")
}

var vxV1Words = []string{"alpha", "beta", "gamma"}

func vxV1Value(n int) string {
	s := ""
	for i := 0; i < n; i++ {
		if i > 0 {
			s += " "
		}
		s += vxV1Words[vxChoice(3)]
	}
	return s
}

// H13d2Q: two verbatim copies of the same known value in one unknown string - each copy is reported with
// confidence 1.0 at exactly its own Offset/Extent (the exact-occurrence scan advances past the first copy).
func H13d2Q() {
	val := vxV1Value(3)
	c := New(DefaultConfidenceThreshold)
	c.AddValue("v", val)
	pre := []string{"", "delta ", "delta epsilon "}[vxChoice(3)]
	mid := []string{" ", " zeta ", " zeta eta theta "}[vxChoice(3)]
	post := []string{"", " eta"}[vxChoice(2)]
	u := pre + val + mid + val + post
	second := len(pre) + len(val) + len(mid)
	ms := c.MultipleMatch(u)
	f1, f2 := false, false
	for _, m := range ms {
		if m.Name == "v" && m.Extent == len(val) && m.Confidence == 1.0 {
			f1 = f1 || m.Offset == len(pre)
			f2 = f2 || m.Offset == second
		}
		vxAssert("offset-inside", m.Offset >= 0 && m.Offset+m.Extent <= len(u))
		vxAssert("confidence-range", m.Confidence > 0 && m.Confidence <= 1)
	}
	vxAssert("first-copy-reported-exactly", f1)
	vxAssert("second-copy-reported-exactly", f2)
	vxCover("end")
}

func H13dQ() { h13d(4) }
func H13dT() { h13d(6) }

// h13d: a verbatim copy of a known value inside an unknown string is reported with confidence 1.0
// and exactly its Offset/Extent; NearestMatch of the value itself is 1.0.
func h13d(n int) {
	val := vxV1Value(n)
	c := New(DefaultConfidenceThreshold)
	c.AddValue("v", val)
	pre := []string{"", "delta ", "delta epsilon "}[vxChoice(3)]
	post := []string{"", " zeta", " zeta eta"}[vxChoice(3)]
	u := pre + val + post
	ms := c.MultipleMatch(u)
	found := false
	for _, m := range ms {
		if m.Name == "v" && m.Offset == len(pre) && m.Extent == len(val) {
			found = true
			vxAssert("verbatim-confidence-1", m.Confidence == 1.0)
		}
		vxAssert("offset-inside", m.Offset >= 0 && m.Offset+m.Extent <= len(u))
	}
	vxAssert("verbatim-copy-reported-exactly", found)
	nm := c.NearestMatch(val)
	vxAssert("nearest-of-known-value", nm.Name == "v" && nm.Confidence == 1.0)
	vxCover("end")
}
